#!/bin/bash
# usage: try_seed.sh <patch.diff> <prop> [tier]   -- apply a seeded change to /repo, run the check, undo
P=$1; PROP=$2; TIER=${3:-quick}
cd /repo || exit 2
git diff --quiet || { echo "/repo working tree not clean"; exit 2; }
git apply "$P" || git apply -3 "$P" || { echo "patch does not apply"; git reset -q --hard HEAD; exit 2; }
/verif/check $PROP $TIER > /tmp/try_seed.out 2>&1; rc=$?
git -C /repo reset -q --hard HEAD
grep -E "VIOLATION|KNOWN-FINDING|class:|tier=" /tmp/try_seed.out | head -12
echo "exit=$rc"
