#!/bin/bash
# Runs the repository's own test suite with the verification guard OFF and
# checks that the 42 stable tests of /root/.vp/BASELINE.json all pass.
# usage: baseline_off.sh [repo_dir]
REPO=${1:-/repo}
cd "$REPO" || exit 2
export CARGO_NET_OFFLINE=true
OUT=$(mktemp)
cargo test --workspace --no-fail-fast --offline -- --test-threads 8 >"$OUT" 2>&1
python3 - "$OUT" <<'PY'
import json,re,sys
out=open(sys.argv[1]).read()
base=json.load(open('/root/.vp/BASELINE.json'))
want=[t.split('::',2)[2] if t.count('::')>=2 else t for t in base['stable_pass']]
ok=set(re.findall(r'^test (\S+) \.\.\. ok$', out, re.M))
missing=[]
for full in base['stable_pass']:
    parts=full.split('::')
    # qcow2-rs::<binary>::<path...>
    name='::'.join(parts[2:])
    alt='::'.join(parts[1:])
    if name in ok or alt in ok: continue
    missing.append(full)
print(f"baseline: {len(base['stable_pass'])-len(missing)}/{len(base['stable_pass'])} stable tests pass")
for m in missing: print("MISSING/FAILED:", m)
sys.exit(1 if missing else 0)
PY
rc=$?
[ $rc -ne 0 ] && tail -50 "$OUT"
rm -f "$OUT"
exit $rc
