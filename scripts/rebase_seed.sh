#!/bin/bash
# usage: rebase_seed.sh <dir with patch.diff>  -- re-create patch.diff against /repo HEAD (keeps patch.orig.diff)
D=$1
cd /repo || exit 2
git diff --quiet || { echo "/repo not clean"; exit 2; }
if git apply --check "$D/patch.diff" 2>/dev/null; then echo "applies cleanly, nothing to do"; exit 0; fi
git apply -3 "$D/patch.diff" || { echo "3-way apply failed"; git reset -q --hard HEAD; exit 3; }
[ -f "$D/patch.orig.diff" ] || cp "$D/patch.diff" "$D/patch.orig.diff"
git diff HEAD > "$D/patch.diff"
git reset -q --hard HEAD
echo "rebased"
