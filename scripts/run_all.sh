#!/bin/bash
# usage: run_all.sh [quick|thorough]  -- run every registered check, print a table
TIER=${1:-quick}
cd /verif
for p in $(python3 -c "import json;print(' '.join(c['property_id'] for c in json.load(open('/verif/MANIFEST.json'))['checks']))"); do
  s=$(date +%s.%N)
  VERIF_SEED=${VERIF_SEED:-1} ./check $p $TIER > /tmp/run_all_$p.log 2>&1; rc=$?
  e=$(date +%s.%N)
  printf "%s exit=%d %.1fs %s\n" $p $rc $(echo "$e - $s" | bc) "$(grep -c '^KNOWN-FINDING' /tmp/run_all_$p.log) known, $(grep -c '^VIOLATION' /tmp/run_all_$p.log) violations"
done
