#!/usr/bin/env python3
"""Generates /verif/MANIFEST.json from the table below (kept in one place so it stays valid)."""
import json, subprocess
ALL = [f"C{i:02d}" for i in range(1, 21)]
# id -> (category, technique, text, note, design_ref)
CHECKS = {
 "C01": ("model_checking", "explicit-state BFS over operation histories of the real code vs flat reference disk",
   "every history of the colliding alphabet up to the depth bound, from every initial image x device configuration, replayed on the real library over a simulated host; each transition checks results and a full guest sweep against RefDisk",
   "SimIo host model, RefDisk, digest-based state merging (hook H1/H4)", "5 C01"),
 "C02": ("model_checking", "explicit-state BFS over operation histories + schedule exploration of concurrent flushes + single-fault enumeration; differential reopen oracle",
   "in every explored state whose last operation flushed, a second device opened on a copy of the file (same and alternate parameters) must sweep equal to the reference disk; the same after every schedule of a flush/shrink racing another call (warm and cold caches), and after every faulted history (each request failing, heal, flush_meta Ok): old device and reopened device read the same",
   "as C01; concurrent part as C06; faulted part as C17", "5 C02"),
 "C03": ("model_checking", "explicit-state BFS over operation histories; independent qcow2 checker",
   "every flushed state's file is checked in strict mode by a checker written from the specification (exact refcounts, COPIED, alignment, double references)",
   "SpecKit checker (self-tested by damage injection)", "5 C03"),
 "C16": ("model_checking", "explicit-state BFS over operation histories; invariant on every backend request",
   "offset, length and buffer address of every logged request of every explored transition (incl. L1 relocation with an entry count that is no block multiple, compressed reads with 4 KiB blocks) are multiples of the block size",
   "as C01", "5 C16"),
 "C18": ("model_checking", "explicit-state BFS over operation histories; flag/file agreement oracle",
   "in every quiescent explored state, and at the end of every schedule of a flush racing another call, with need_flush_meta()==false: no dirty slice or top-table block in RAM, a device opened on a copy of the file sweeps equal, checker safe mode passes",
   "as C01; hook H4 state dump", "5 C18"),
 "C04": ("fault_enumeration", "exhaustive crash-image enumeration over the backend request log of every explored history",
   "for every transition of the history BFS and every schedule of 16 concurrent flush scenarios, every fsync window it touches is expanded into all crash images (durable image x per-block choice among un-synced versions) and each distinct image is judged by the independent checker in safe mode (structure, initialised tables, no under-counted reachable cluster)",
   "crash model = POSIX contract (anything not covered by a completed fsync may persist, vanish or tear at 512-byte granularity); SpecKit checker", "5 C04"),
 "C05": ("fault_enumeration", "exhaustive crash-image enumeration; the library re-opens every crash image",
   "same crash images as C04 (sequential histories and concurrent flush+fsync scenarios) plus the crash point right after each sync; the library opens each image and every block that held synced data must read its synced value or the value of an operation issued after the sync",
   "as C04", "5 C05"),
 "C06": ("model_checking", "stateless deviation-bounded exploration of all schedules under a deterministic executor; per-block linearizability by brute force",
   "for 2-3 concurrent API calls per scenario (all pairs of a colliding menu x set-ups x cache sizes + curated triples) every interleaving of task polls and backend completions within the deviation bound is executed on the real code; each execution's reads and final content must be explained by some real-time-respecting order per block, and the content must survive flush+reopen",
   "task polls are atomic (single-threaded async); executor owns poll order and completion order; SimIo", "5 C06"),
 "C07": ("model_checking", "stateless deviation-bounded exploration of all schedules; deadlock/livelock/spurious-error detection",
   "same executions as C06: unfinished tasks with no enabled action = deadlock, step budget exceeded = livelock, Err from a valid call under a fault-free backend = spurious failure",
   "as C06", "5 C07"),
 "C08": ("model_checking", "explicit-state BFS over allocator/guest histories through the allocator hook + schedule exploration of concurrent allocators; ownership derived by the independent checker",
   "every history of allocate(n)/free(run)/write/discard/flush/reopen up to the depth bound from fragmented, empty and populated images; after every transition: handed-out clusters were free, held runs counted once, nothing under-counted / doubly referenced / leaked; concurrent allocators get disjoint runs under every schedule within the deviation bound; write/discard cycles do not grow the host file",
   "hook H3 forwards allocate_clusters/free_clusters unchanged; SpecKit checker", "5 C08"),
 "C10": ("model_checking", "explicit-state BFS over COW histories on backing-chain and compressed images",
   "every history of partial/straddling writes, reads, discards, flush, reopen up to the depth bound over clusters provided by a backing chain (equal/shorter/longer/depth 2) or stored compressed (inside, straddling, ending on a host cluster boundary): RefDisk sweep, reopen, strict checker, read-only devices see reads only",
   "SpecKit builder images; as C01", "5 C10"),
 "C11": ("model_checking", "explicit-state BFS with a ~95-pair discard(offset,len) alphabet over all cluster states",
   "every history up to the depth bound of boundary-valued discards, writes, flush, reopen on images with data / zero / zero+prealloc / compressed / backing / unallocated clusters, hole punch supported and unsupported: every discard Ok, RefDisk discard semantics, reopen, strict checker",
   "as C01", "5 C11"),
 "C13": ("exploration", "complete enumeration of the boundary product of (offset, length, block size, device mode, operation)",
   "6.9k calls, one fresh device each: result vs the statement, no modifying request and unchanged content on Err, no panic with overflow checks on",
   "harness built with overflow-checks", "5 C13"),
 "C15": ("exploration", "complete enumeration of finite / boundary codec domains against an independent packer and decoder",
   "refcount get/set raw bytes for every width x index x value x background; L2 entry classes for every cluster size; guest/host index arithmetic for every geometry around every boundary up to 2^56; header parse/serialise round trips v2 / v3 with header_length 104..136",
   "SpecKit packer/decoder", "5 C15"),
 "C17": ("fault_enumeration", "exhaustive single-fault (and pair-fault) injection over the request stream of every history",
   "for every history of the reduced alphabet at the depth bound (and growth histories on short-L1 and refcount-table-edge images): one run per backend request failing (all pairs in thorough), per-kind failures, hole punch unsupported; the call reports Err, the device stays usable, a healed flush_meta succeeds and the reopened image holds every acknowledged write with no under-count",
   "failed request has no effect; backend heals completely", "5 C17"),
 "C14": ("exploration", "deterministic enumeration of malformed inputs executed in watchdog-supervised worker sub-processes",
   "header prefixes of every length, every header field x boundary values singly and in pairs, all feature bits, extension lengths 0..100 and at buffer/cluster ends, backing-name boundaries, every leading L1/L2/reftable entry x 20 bad encodings, corrupted compressed payloads, on 4 base images; open + read/get_mapping/check/write/flush must return Ok or Err: no panic, abort, hang, or allocation out of proportion; unsupported encodings refused at open",
   "worker isolation + counting allocator; simulated file refuses to grow beyond 64 MiB", "5 C14"),
 "C09": ("exploration", "bounded-exhaustive enumeration of builder images (class x boundary product) against the builder's ground truth; formatter output against the independent checker",
   "1.3k (quick) foreign images over cluster size x refcount width x version x cluster kinds x placement x short L1 x backing x parameters x ragged end: get_mapping and read_at of every probe cluster equal the ground truth; format_qcow2 over sizes x geometries is valid and its derived geometry matches the specification's formulas",
   "SpecKit builder validated by the SpecKit checker before use", "5 C09"),
 "C12": ("model_checking", "explicit-state BFS from images one allocation short of each kind of metadata growth + crash-image enumeration with post-crash continuation",
   "histories of writes/discards/flush/sync/reopen from six images built one allocation short of a new refcount block (first / last entry of a reftable block), of the refcount table's end (relocation + header switch) and with short L1 tables (in place, relocation of one and of two clusters); C01 C02 C03 C16 oracles on every transition, C04 C05 oracles on every crash image of the growth windows, and every crash image at the refblock and refcount-table edge is re-opened and written until the allocator crosses the next refblock boundary",
   "growth racing other calls is explored by C06/C07's growth scenarios, growth under faults by C17", "5 C12"),
 "C19": ("exploration", "complete enumeration of request sequences up to length 2 (3) over a 27-request alphabet on three real backends (5 variants) and SimIo",
   "results, read data, final file bytes and length identical across tokio, sync (buffered, O_DIRECT), io_uring (buffered, O_DIRECT) and the SimIo model; 10 guest histories through the whole library on each backend yield identical guest content",
   "ext4 root file system of the sandbox", "5 C19"),
 "C20": ("exploration", "enumeration of CLI inputs: raw sizes x contents, format parameters, consistent images x every leak position",
   "rqcow2 convert raw->qcow2->raw reproduces the zero-padded input and terminates; rqcow2 format output passes the independent checker; Qcow2Dev::check() and rqcow2 check accept every consistent image (24 shapes + all 5^4 kind assignments over four guest clusters x layouts) and reject each copy with one free cluster's refcount raised",
   "rqcow2 built from /repo by the check", "5 C20"),
}
NA = {}
def main():
    src = subprocess.run(["git","-C","/repo","log","--format=%H %s"],capture_output=True,text=True).stdout.splitlines()
    hooks=[l.split()[0] for l in src if l.split(' ',1)[1].startswith('verif-hooks')]
    checks=[]
    for pid,(cat,tech,text,note,ref) in sorted(CHECKS.items()):
        checks.append({
          "property_id": pid,
          "quick_cmd": f"./check {pid} quick",
          "thorough_cmd": f"./check {pid} thorough",
          "evidence_file": f"/verif/evidence/{pid}.json",
          "replay_cmd_template": "./check replay {path}",
          "engine": "qmc",
          "level_claimed": {"category": cat, "text": text, "design_ref": f"DESIGN.md section {ref}"},
          "level_note": note,
          "technique": tech,
        })
    na=[{"property_id":p,"reason":NA.get(p,"check not built yet in this round (machinery under construction); see DESIGN.md section 5 for the planned bounded-exhaustive formulation")} for p in ALL if p not in CHECKS]
    m={
      "version":1,
      "setup_cmd":"cd /verif/qmc && mkdir -p /verif/target /verif/evidence /verif/replays && CARGO_NET_OFFLINE=true cargo build --release --offline && CARGO_TARGET_DIR=/verif/target/rqcow2 CARGO_NET_OFFLINE=true cargo build --release --offline --bin rqcow2 --manifest-path /repo/Cargo.toml",
      "hooks":{"guard":"cargo feature verif-hooks (cfg(feature = \"verif-hooks\"))","enable":"the harness crate /verif/qmc depends on /repo with features=[\"verif-hooks\"]","baseline_off_cmd":"/verif/scripts/baseline_off.sh /repo","source_commits":hooks,"add_only":True},
      "engines":[{"name":"qmc","path":"/verif/qmc","serves_properties":sorted(CHECKS.keys()),"kind_free_text":"Rust harness: simulated backend (SimIo) + explicit-state BFS over histories (HIST), deviation-bounded schedule exploration under a deterministic executor (SCHED), crash-image and fault enumeration over the request log (CRASH/FAULT), bounded-exhaustive input enumeration (ENUM); all on the real library code"}],
      "checks":checks,
      "not_applicable":na,
      "notes":"All checks rebuild /verif/qmc against /repo's working tree (path dependency, hooks on) before running. known findings: /verif/known_findings.json"
    }
    json.dump(m,open('/verif/MANIFEST.json','w'),indent=1)
    import jsonschema
    jsonschema.validate(m,json.load(open('/root/.vp/MANIFEST.schema.json')))
    print("MANIFEST ok:",len(checks),"checks,",len(na),"not applicable")
main()
