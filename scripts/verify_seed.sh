#!/bin/bash
# usage: verify_seed.sh <ID> <srcdir with patch.diff + seed_*.rs>
# Confirms, in a fresh scratch worktree of /repo HEAD: patch applies, builds, 42 baseline tests pass with it,
# demo fails with it and passes without it. Writes <srcdir>/verify.log; prints a one-line verdict.
ID=$1; SRC=$2
WT=/tmp/vseed-$ID
LOG=$SRC/verify.log
: > $LOG
git -C /repo worktree remove --force $WT >/dev/null 2>&1
git -C /repo worktree add -q --detach $WT HEAD || { echo "$ID: worktree failed"; exit 2; }
cp /repo/Cargo.lock $WT/
cd $WT
DEMO=$(ls $SRC/seed_*.rs 2>/dev/null | head -1)
[ -z "$DEMO" ] && { echo "$ID: no demo"; exit 2; }
cp $DEMO tests/
T=$(basename $DEMO .rs)
export CARGO_NET_OFFLINE=true
echo "== demo WITHOUT change" >> $LOG
without=1; for i in 1 2 3 4 5 6; do cargo test --offline --test $T >> $LOG 2>&1 && { without=0; break; }; done   # some demos use the tokio backend and race with its buffered writes
git apply $SRC/patch.diff >> $LOG 2>&1 || git apply -3 $SRC/patch.diff >> $LOG 2>&1 || { echo "$ID: patch does not apply on HEAD"; cd /; git -C /repo worktree remove --force $WT; exit 3; }
echo "== demo WITH change" >> $LOG
with=1; for i in 1 2 3 4 5 6; do cargo test --offline --test $T >> $LOG 2>&1 && { with=0; break; }; done   # must fail every time
echo "== baseline suite WITH change" >> $LOG
/verif/scripts/baseline_off.sh $WT >> $LOG 2>&1; base=$?
cd /
git -C /repo worktree remove --force $WT
echo "$ID: demo_without_change_exit=$without demo_with_change_exit=$with baseline_with_change_exit=$base  => $([ $without -eq 0 ] && [ $with -ne 0 ] && [ $base -eq 0 ] && echo CONFIRMED || echo NOT-CONFIRMED)" | tee -a $LOG
