#!/bin/bash
# usage: seed_matrix.sh [tier] [ids...]  -- every seeded change against the quick (or given) tier of the check of the
# property it breaks; applies the patch to /repo, runs the check, undoes it. Writes seeded/MATRIX.tsv.
TIER=${1:-quick}; shift
cd /verif
IDS="$@"; [ -z "$IDS" ] && IDS=$(ls seeded | grep -v MATRIX)
OUT=seeded/MATRIX.tsv
[ -z "$1" ] && : > $OUT
for id in $IDS; do
  d=/verif/seeded/$id
  prop=$(python3 -c "import json;m=json.load(open('$d/meta.json'));print(m.get('breaks_property') or m.get('property'))")
  extra=$(python3 -c "import json;m=json.load(open('$d/meta.json'));print(' '.join(m.get('also_checked_by',[])))")
  git -C /repo diff --quiet || { echo "/repo not clean"; exit 2; }
  if ! git -C /repo apply $d/patch.diff 2>/dev/null; then
     printf "%s\t%s\t%s\t%s\n" $id $prop NOAPPLY "" | tee -a $OUT; git -C /repo reset -q --hard HEAD; continue
  fi
  for p in $prop $extra; do
    ./check $p $TIER > /tmp/seed_matrix.out 2>&1; rc=$?
    cls=$(grep -m1 "class:" /tmp/seed_matrix.out | sed 's/^ *class: //' | cut -c1-140)
    n=$(grep -c "^VIOLATION" /tmp/seed_matrix.out)
    printf "%s\t%s\texit=%s\t%s classes; first: %s\n" $id $p $rc $n "$cls" | tee -a $OUT
  done
  git -C /repo reset -q --hard HEAD
done
