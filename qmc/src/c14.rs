//! C14 — malformed / unsupported images. Inputs are enumerated deterministically
//! and executed in worker sub-processes (an allocation failure aborts the
//! process, a CPU loop never returns): the parent attributes an abort or a hang
//! to the input that was running and restarts the worker behind it.
use crate::report::{Run, Violation};
use crate::seq::err_category;
use crate::simio::{Sim, SimIo};
use crate::spec::{self, GKind, ImageSpec};
use crate::world::*;
use qcow2_rs::helpers::Qcow2IoBuf;
use qcow2_rs::meta::Qcow2Header;
use serde_json::json;
use std::alloc::{GlobalAlloc, Layout, System};
use std::io::{BufRead, Write};
use std::panic::{catch_unwind, AssertUnwindSafe};
use std::sync::atomic::{AtomicBool, AtomicUsize, Ordering};

// ---- counting allocator -------------------------------------------------
pub struct CountingAlloc;
static CUR: AtomicUsize = AtomicUsize::new(0);
static PEAK: AtomicUsize = AtomicUsize::new(0);
static COUNTING: AtomicBool = AtomicBool::new(false);
/// a single allocation above this is refused (alloc returns null => abort)
const SINGLE_LIMIT: usize = 3 << 30;

unsafe impl GlobalAlloc for CountingAlloc {
    unsafe fn alloc(&self, l: Layout) -> *mut u8 {
        if COUNTING.load(Ordering::Relaxed) {
            if l.size() > SINGLE_LIMIT {
                return std::ptr::null_mut();
            }
            let c = CUR.fetch_add(l.size(), Ordering::Relaxed) + l.size();
            PEAK.fetch_max(c, Ordering::Relaxed);
        }
        System.alloc(l)
    }
    unsafe fn dealloc(&self, p: *mut u8, l: Layout) {
        if COUNTING.load(Ordering::Relaxed) {
            CUR.fetch_sub(l.size().min(CUR.load(Ordering::Relaxed)), Ordering::Relaxed);
        }
        System.dealloc(p, l)
    }
    unsafe fn alloc_zeroed(&self, l: Layout) -> *mut u8 {
        if COUNTING.load(Ordering::Relaxed) {
            if l.size() > SINGLE_LIMIT {
                return std::ptr::null_mut();
            }
            let c = CUR.fetch_add(l.size(), Ordering::Relaxed) + l.size();
            PEAK.fetch_max(c, Ordering::Relaxed);
        }
        System.alloc_zeroed(l)
    }
}

// ---- inputs -----------------------------------------------------------------
#[derive(Clone, Debug)]
pub enum Input {
    /// Qcow2Header::from_buf on the first `len` bytes of a valid image
    HeaderPrefix { base: usize, len: usize },
    /// image with byte ranges overwritten: (offset, bytes)
    Patched { base: usize, patches: Vec<(usize, Vec<u8>)>, what: String, must_refuse: bool },
    /// a valid image opened with explicit cache slice sizes (chosen by the caller before the image's
    /// cluster size is known)
    Params { base: usize, bits: u8 },
}

fn base_images() -> Vec<(String, Vec<u8>)> {
    let mut out = vec![];
    for (name, cb, ver) in [("v3c9", 9u32, 3u32), ("v3c12", 12, 3), ("v2c12", 12, 2), ("v3c16", 16, 3)] {
        let mut s = ImageSpec::new(cb, 4, 40 << cb);
        s.version = ver;
        s.kinds = vec![GKind::Unalloc; 40];
        s.kinds[0] = GKind::Data;
        s.kinds[1] = GKind::Compressed;
        s.kinds[2] = if ver == 3 { GKind::Zero } else { GKind::Data };
        s.kinds[5] = GKind::Data;
        s.extensions = cb >= 12;
        let b = spec::build_image(&s);
        out.push((name.to_string(), b.bytes));
    }
    out
}

const FIELDS: &[(&str, usize, usize)] = &[
    ("version", 4, 4),
    ("backing_file_offset", 8, 8),
    ("backing_file_size", 16, 4),
    ("cluster_bits", 20, 4),
    ("size", 24, 8),
    ("crypt_method", 32, 4),
    ("l1_size", 36, 4),
    ("l1_table_offset", 40, 8),
    ("refcount_table_offset", 48, 8),
    ("refcount_table_clusters", 56, 4),
    ("nb_snapshots", 60, 4),
    ("snapshots_offset", 64, 8),
    ("incompatible_features", 72, 8),
    ("compatible_features", 80, 8),
    ("autoclear_features", 88, 8),
    ("refcount_order", 96, 4),
    ("header_length", 100, 4),
    ("compression_type", 104, 1),
];

fn field_values(name: &str, width: usize, cs: u64, flen: u64) -> Vec<u64> {
    let maxv: u64 = if width == 8 { u64::MAX } else if width == 4 { u32::MAX as u64 } else { 255 };
    let mut v: Vec<u64> = vec![0, 1, 2, 3, 4, 7, 8, 9, 21, 22, 31, 32, 63, 64, 72, 104, 112, 1 << 16, 1 << 31, maxv - 1, maxv, cs - 1, cs, cs + 1, 2 * cs, flen - 1, flen, flen + cs];
    if width == 8 {
        v.extend([1 << 32, 1 << 55, (1 << 56) - cs, 1 << 56, 1 << 63, (1 << 63) - cs, u64::MAX / cs * cs, u64::MAX / cs * cs - cs]);
    }
    if name == "size" {
        v.extend([1 << 40, 1 << 50, 1 << 62]);
        // around what a maximal (32 MiB) L1 table can map with this cluster size: 4 Mi entries x (cs/8) x cs
        let lim = (4u64 << 20).saturating_mul(cs / 8).saturating_mul(cs);
        v.extend([lim - cs, lim, lim + cs, lim.saturating_mul(2), lim.saturating_mul(8), lim.saturating_mul(8).saturating_add(cs)]);
    }
    v.retain(|x| *x <= maxv);
    v.sort();
    v.dedup();
    v
}

fn enc(width: usize, v: u64) -> Vec<u8> {
    match width {
        8 => v.to_be_bytes().to_vec(),
        4 => (v as u32).to_be_bytes().to_vec(),
        _ => vec![v as u8],
    }
}

/// must an image with this single header mutation be refused at open? (statement: unsupported features)
fn must_refuse(field: &str, v: u64, version: u32) -> bool {
    match field {
        "crypt_method" => v != 0,
        "incompatible_features" => version >= 3 && v != 0,
        "refcount_order" => version >= 3 && v > 6,
        "cluster_bits" => !(9..=21).contains(&v),
        "version" => v != 2 && v != 3,
        _ => false,
    }
}

pub fn inputs(thorough: bool) -> Vec<Input> {
    let bases = base_images();
    let mut out = vec![];
    // (a) header prefixes
    for (bi, (_, img)) in bases.iter().enumerate() {
        for len in (0..=200).chain([511, 512, 513, 4095, 4096]) {
            if len <= img.len() {
                out.push(Input::HeaderPrefix { base: bi, len });
            }
        }
    }
    // (a') valid images, explicit slice sizes from one block up to 64 KiB
    for bi in 0..bases.len() {
        for bits in 9..=16u8 {
            out.push(Input::Params { base: bi, bits });
        }
    }
    // (b) single field mutations, then pairs
    for (bi, (bname, img)) in bases.iter().enumerate() {
        let h = spec::parse_header(img).unwrap();
        let cs = 1u64 << h.cluster_bits;
        let nfields = if h.version == 2 { 12 } else { FIELDS.len() };
        let mut singles: Vec<(usize, u64)> = vec![];
        for (fi, (name, off, w)) in FIELDS[..nfields].iter().enumerate() {
            for v in field_values(name, *w, cs, img.len() as u64) {
                singles.push((fi, v));
                out.push(Input::Patched {
                    base: bi,
                    patches: vec![(*off, enc(*w, v))],
                    what: format!("{}: {}={:#x}", bname, name, v),
                    must_refuse: must_refuse(name, v, h.version),
                });
            }
        }
        if thorough || bi == 1 {
            // pairs of fields: a reduced value set per field keeps the product finite and complete
            let red = |name: &str, w: usize| -> Vec<u64> {
                let maxv: u64 = if w == 8 { u64::MAX } else if w == 4 { u32::MAX as u64 } else { 255 };
                let mut v = vec![0u64, 1, 9, 22, 64, maxv, cs, img.len() as u64 + cs];
                if name == "size" {
                    v.push(1 << 50);
                }
                v.retain(|x| *x <= maxv);
                v.dedup();
                v
            };
            for i in 0..nfields {
                for j in i + 1..nfields {
                    let (ni, oi, wi) = FIELDS[i];
                    let (nj, oj, wj) = FIELDS[j];
                    if !thorough && !(["cluster_bits", "l1_size", "refcount_table_clusters", "size", "refcount_order", "header_length"].contains(&ni) || ["cluster_bits", "l1_size", "refcount_table_clusters", "size", "refcount_order", "header_length"].contains(&nj)) {
                        continue;
                    }
                    for vi in red(ni, wi) {
                        for vj in red(nj, wj) {
                            out.push(Input::Patched {
                                base: bi,
                                patches: vec![(oi, enc(wi, vi)), (oj, enc(wj, vj))],
                                what: format!("{}: {}={:#x} {}={:#x}", bname, ni, vi, nj, vj),
                                must_refuse: must_refuse(ni, vi, h.version) || must_refuse(nj, vj, h.version),
                            });
                        }
                    }
                }
            }
        }
        // every incompatible / autoclear bit
        if h.version == 3 {
            for bit in 0..64 {
                out.push(Input::Patched { base: bi, patches: vec![(72, enc(8, 1u64 << bit))], what: format!("{}: incompatible bit {}", bname, bit), must_refuse: true });
            }
            for ct in 1..=3u64 {
                out.push(Input::Patched { base: bi, patches: vec![(72, enc(8, 1 << 3)), (104, enc(1, ct))], what: format!("{}: compression_type {}", bname, ct), must_refuse: true });
            }
            // a compression type without its feature bit is still not deflate (the field exists if the header is long enough)
            if h.header_length > 104 {
                for ct in [1u64, 2, 3, 0x80, 0xff] {
                    out.push(Input::Patched { base: bi, patches: vec![(104, enc(1, ct))], what: format!("{}: compression_type {} without the feature bit", bname, ct), must_refuse: true });
                }
            }
        }
        // (c) extension area
        let ext_start = h.header_length as usize;
        for ty in [0xe279_2acau32, 0x6803_f857, 0x1234_5678, 0x4441_5441] {
            let mut lens: Vec<u32> = (0..=100).collect();
            lens.extend([cs as u32 - ext_start as u32 - 8, cs as u32 - ext_start as u32 - 7, cs as u32, 4096 - ext_start.min(4000) as u32 - 8, 4096, 65536, u32::MAX - 7, u32::MAX]);
            for l in lens {
                let mut p = vec![];
                p.extend(ty.to_be_bytes());
                p.extend(l.to_be_bytes());
                // payload bytes that are not valid utf-8 and look like feature entries of unknown type
                let fill = (l as usize).min(120);
                p.extend((0..fill).map(|i| if i % 48 == 0 { (i / 48 % 4) as u8 } else { 0xc3 }));
                out.push(Input::Patched { base: bi, patches: vec![(ext_start, p)], what: format!("{}: extension {:#x} length {}", bname, ty, l), must_refuse: false });
            }
        }
        // backing name boundaries
        for (bo, bl) in [(1u64, 1u32), (cs - 1, 1), (cs, 1), (cs - 1, 2), (200, 1023), (200, 1024), (u64::MAX, 1), (u64::MAX - 3, 8), (4090, 10), (img.len() as u64, 4), (104, 0)] {
            out.push(Input::Patched { base: bi, patches: vec![(8, enc(8, bo)), (16, enc(4, bl as u64))], what: format!("{}: backing name offset {:#x} length {}", bname, bo, bl), must_refuse: false });
        }
        // (d) table entries
        let l1_off = h.l1_off as usize;
        let rt_off = h.rt_off as usize;
        let l2_off = (u64::from_be_bytes(img[l1_off..l1_off + 8].try_into().unwrap()) & 0x00ff_ffff_ffff_fe00) as usize;
        let rb_off = (u64::from_be_bytes(img[rt_off..rt_off + 8].try_into().unwrap()) & !0x1ff) as usize;
        let x = 62 - (h.cluster_bits - 8);
        let bad: Vec<(&str, u64)> = vec![
            ("unaligned", cs + 512 + 1),
            ("unaligned-sector", cs * 2 + 512),
            ("beyond-eof", (img.len() as u64 + 16 * cs) & !(cs - 1)),
            ("far", (1u64 << 56) - cs),
            ("beyond-56", 1u64 << 60),
            ("flags-without-offset", 1u64 << 63),
            ("zero-and-copied", (1u64 << 63) | 1),
            ("points-at-header", 1u64 << 63),
            ("points-at-header-offset0-copied", (1u64 << 63) | 0),
            ("points-at-l1", (1u64 << 63) | h.l1_off),
            ("points-at-reftable", (1u64 << 63) | h.rt_off),
            ("points-at-l2", (1u64 << 63) | l2_off as u64),
            ("points-at-refblock", (1u64 << 63) | rb_off as u64),
            ("reserved-bits", cs | 0x1fe),
            ("reserved-high", cs | (0x3f << 56)),
            ("compressed-max-length", (1u64 << 62) | (((1u64 << (h.cluster_bits - 8)) - 1) << x) | (cs * 3 + 7)),
            ("compressed-beyond-eof", (1u64 << 62) | (img.len() as u64 + 5 * cs + 3)),
            ("compressed-at-zero", 1u64 << 62),
            ("compressed-copied", (3u64 << 62) | (cs * 3)),
            ("all-ones", u64::MAX),
        ];
        for (table, toff, n) in [("L1", l1_off, 2usize), ("L2", l2_off, 7), ("reftable", rt_off, 2)] {
            if toff == 0 {
                continue;
            }
            for idx in 0..n {
                for (bn, bv) in bad.iter() {
                    out.push(Input::Patched {
                        base: bi,
                        patches: vec![(toff + idx * 8, bv.to_be_bytes().to_vec())],
                        what: format!("{}: {}[{}] = {} ({:#x})", bname, table, idx, bn, bv),
                        must_refuse: false,
                    });
                }
            }
        }
        // refblock content: all ones / all zero
        if rb_off != 0 {
            out.push(Input::Patched { base: bi, patches: vec![(rb_off, vec![0xff; 64])], what: format!("{}: refblock head all ones", bname), must_refuse: false });
            out.push(Input::Patched { base: bi, patches: vec![(rb_off, vec![0x00; 64])], what: format!("{}: refblock head all zero", bname), must_refuse: false });
        }
        // compressed payload corrupted / truncated
        let l2e1 = u64::from_be_bytes(img[l2_off + 8..l2_off + 16].try_into().unwrap());
        if l2e1 >> 62 & 1 == 1 {
            let coff = (l2e1 & ((1u64 << x) - 1)) as usize;
            for (k, pat) in [(0usize, 0xffu8), (1, 0x00), (3, 0x55), (8, 0xff)] {
                out.push(Input::Patched { base: bi, patches: vec![(coff + k, vec![pat; 6])], what: format!("{}: compressed payload corrupted at +{}", bname, k), must_refuse: false });
            }
        }
    }
    out
}

fn materialize(inp: &Input, bases: &[(String, Vec<u8>)]) -> (Vec<u8>, String, bool) {
    match inp {
        Input::HeaderPrefix { base, len } => (bases[*base].1[..*len].to_vec(), format!("{}: header buffer of {} bytes", bases[*base].0, len), false),
        Input::Params { base, bits } => (bases[*base].1.clone(), format!("{}: opened with {}-byte cache slices", bases[*base].0, 1u64 << bits), false),
        Input::Patched { base, patches, what, must_refuse } => {
            let mut b = bases[*base].1.clone();
            for (off, bytes) in patches {
                if off + bytes.len() > b.len() {
                    b.resize(off + bytes.len(), 0);
                }
                b[*off..off + bytes.len()].copy_from_slice(bytes);
            }
            (b, what.clone(), *must_refuse)
        }
    }
}

/// run one input; returns (outcome label, violations as (class, detail))
fn run_input(inp: &Input, bases: &[(String, Vec<u8>)]) -> (String, Vec<(String, String)>) {
    let (bytes, what, refuse) = materialize(inp, bases);
    let mut v = vec![];
    if let Input::HeaderPrefix { .. } = inp {
        let r = catch_unwind(AssertUnwindSafe(|| Qcow2Header::from_buf(&bytes).is_ok()));
        return match r {
            Ok(ok) => (format!("from_buf:{}", if ok { "Ok" } else { "Err" }), v),
            Err(p) => {
                let m = panic_msg(p);
                v.push((format!("from_buf-panic:{}", err_category(&m)), format!("{}: Qcow2Header::from_buf panicked: {}", what, m)));
                ("from_buf:panic".into(), v)
            }
        };
    }
    let flen = bytes.len();
    let sim = Sim::new(vec![bytes]);
    sim.borrow_mut().keep_payload = false;
    sim.borrow_mut().max_file_len = 64 << 20;
    let cfg = match inp {
        Input::Params { bits, .. } => DevCfg { bs_bits: 9, l2: Some((*bits, 4usize << bits)), rb: Some((*bits, 4usize << bits)) },
        _ => DevCfg { bs_bits: 9, l2: None, rb: None },
    };
    PEAK.store(CUR.load(Ordering::Relaxed), Ordering::Relaxed);
    let base_cur = CUR.load(Ordering::Relaxed);
    let dev = catch_unwind(AssertUnwindSafe(|| {
        let (d, _) = crate::world::block_on(qcow2_rs::utils::qcow2_alloc_dev(std::path::Path::new("sim0"), SimIo::new(&sim, 0), &cfg.params(false, false)))
            .map_err(|e| format!("{e:?}"))?;
        crate::world::block_on(d.qcow2_prep_io()).map_err(|e| format!("prep_io: {e:?}"))?;
        Ok::<Dev, String>(d)
    }));
    let mut outcome;
    match dev {
        Err(p) => {
            let m = panic_msg(p);
            v.push((format!("open-panic:{}", err_category(&m)), format!("{}: opening panicked: {}", what, m)));
            outcome = "open:panic".to_string();
        }
        Ok(Err(_)) => outcome = "open:Err".to_string(),
        Ok(Ok(dev)) => {
            outcome = "open:Ok".to_string();
            if refuse {
                v.push(("unsupported-accepted".into(), format!("{}: image uses an unsupported feature / value but was opened", what)));
            }
            let vs = dev.info.virtual_size();
            let cs = dev.info.cluster_size() as u64;
            let mut offs: Vec<u64> = (0..8).map(|i| i * cs).collect();
            if vs > cs {
                offs.push((vs - 1) / cs * cs);
            }
            offs.retain(|o| *o < vs);
            let mut labels = vec![];
            let budget_hit = |sim: &std::rc::Rc<std::cell::RefCell<Sim>>| sim.borrow().reqs.len() > 200_000;
            for (name, f) in [("read", 0), ("map", 1), ("check", 2), ("write", 3), ("flush", 4), ("discard", 5), ("flush-after-discard", 4)] {
                let r = catch_unwind(AssertUnwindSafe(|| {
                    let mut ok = 0;
                    let mut err = 0;
                    match f {
                        0 => {
                            for o in offs.iter() {
                                let len = (cs as usize).min(65536);
                                let mut b = Qcow2IoBuf::<u8>::new(len);
                                match crate::world::block_on(dev.read_at(&mut b, *o)) {
                                    Ok(_) => ok += 1,
                                    Err(_) => err += 1,
                                }
                            }
                        }
                        1 => {
                            for o in offs.iter() {
                                match crate::world::block_on(dev.get_mapping(*o)) {
                                    Ok(_) => ok += 1,
                                    Err(_) => err += 1,
                                }
                            }
                        }
                        2 => {
                            if vs <= (1 << 30) {
                                match crate::world::block_on(dev.check()) {
                                    Ok(_) => ok += 1,
                                    Err(_) => err += 1,
                                }
                            }
                        }
                        3 => {
                            let b = make_write_buf(512, 0x99);
                            for o in [3 * cs, 0, (vs.max(cs) - 1) / cs * cs] {
                                if o < vs {
                                    match crate::world::block_on(dev.write_at(&b[..512], o)) {
                                        Ok(_) => ok += 1,
                                        Err(_) => err += 1,
                                    }
                                }
                            }
                        }
                        5 => {
                            // releases whatever the (possibly forged) entries point to
                            for o in offs.iter() {
                                match crate::world::block_on(dev.discard(*o, cs)) {
                                    Ok(_) => ok += 1,
                                    Err(_) => err += 1,
                                }
                            }
                        }
                        _ => match crate::world::block_on(dev.flush_meta()) {
                            Ok(_) => ok += 1,
                            Err(_) => err += 1,
                        },
                    }
                    (ok, err)
                }));
                match r {
                    Ok((ok, err)) => labels.push(format!("{}:{}{}", name, if ok > 0 { "o" } else { "" }, if err > 0 { "e" } else { "" })),
                    Err(p) => {
                        let m = panic_msg(p);
                        v.push((format!("{}-panic:{}", name, err_category(&m)), format!("{}: {} panicked: {}", what, name, m)));
                        labels.push(format!("{}:panic", name));
                        break;
                    }
                }
                if budget_hit(&sim) {
                    v.push((format!("{}-unbounded-requests", name), format!("{}: {} issued more than 200000 backend requests", what, name)));
                    break;
                }
            }
            // whatever the operations returned, they must not have destroyed the image's identity
            if sim.borrow().files[0].get(0..4) != Some(&[0x51, 0x46, 0x49, 0xfb][..]) {
                v.push(("header-destroyed".into(), format!("{}: after read/write/discard/flush the file does not start with the qcow2 magic any more", what)));
            }
            outcome = format!("open:Ok {}", labels.join(" "));
            std::mem::forget(dev); // a device in a broken state may panic in drop paths; not under test
        }
    }
    let peak = PEAK.load(Ordering::Relaxed).saturating_sub(base_cur);
    // the simulated host file lives in this process' heap too: what the operations legitimately
    // appended to it (a relocated L1 table of an image with a huge virtual size) is file, not memory
    let flen = flen.max(sim.borrow().files[0].len());
    let limit = 64 * flen + (64 << 20);
    if peak > limit {
        v.push(("allocation-out-of-proportion".into(), format!("{}: peak allocation {} bytes for a {}-byte file (limit {})", what, peak, flen, limit)));
    }
    (outcome, v)
}

pub fn worker(args: &[String]) -> i32 {
    let thorough = args.get(0).map_or(false, |a| a == "thorough");
    let shard: usize = args.get(1).and_then(|x| x.parse().ok()).unwrap_or(0);
    let nshards: usize = args.get(2).and_then(|x| x.parse().ok()).unwrap_or(1);
    let start: usize = args.get(3).and_then(|x| x.parse().ok()).unwrap_or(0);
    let bases = base_images();
    let ins = inputs(thorough);
    COUNTING.store(true, Ordering::Relaxed);
    let out = std::io::stdout();
    for (i, inp) in ins.iter().enumerate() {
        if i % nshards != shard || i < start {
            continue;
        }
        let (_, what, _) = materialize(inp, &bases);
        {
            let mut o = out.lock();
            let _ = writeln!(o, "S {} {}", i, what.replace('\n', " "));
            let _ = o.flush();
        }
        let (outcome, v) = run_input(inp, &bases);
        let mut o = out.lock();
        for (c, d) in v {
            let _ = writeln!(o, "V {}", json!({"i": i, "class": c, "detail": d}));
        }
        let _ = writeln!(o, "D {} {}", i, outcome);
        let _ = o.flush();
    }
    println!("END");
    0
}

pub fn c14() -> i32 {
    let run = Run::new("C14", "exploration");
    let thorough = run.thorough();
    let total = inputs(thorough).len();
    let nshards = 16usize;
    let exe = std::env::current_exe().unwrap();
    let handles: Vec<std::thread::JoinHandle<(u64, Vec<Violation>, std::collections::BTreeSet<String>, Vec<String>)>> = (0..nshards)
        .map(|shard| {
            let exe = exe.clone();
            let tier = if thorough { "thorough" } else { "quick" }.to_string();
            std::thread::spawn(move || {
                let mut done = 0u64;
                let mut viols = vec![];
                let mut outcomes = std::collections::BTreeSet::new();
                let mut samples = vec![];
                let mut start = 0usize;
                loop {
                    let mut child = std::process::Command::new(&exe)
                        .args(["c14-worker", &tier, &shard.to_string(), &nshards.to_string(), &start.to_string()])
                        .stdout(std::process::Stdio::piped())
                        .stderr(std::process::Stdio::null())
                        .spawn()
                        .expect("spawn worker");
                    let stdout = child.stdout.take().unwrap();
                    let (tx, rx) = std::sync::mpsc::channel::<String>();
                    std::thread::spawn(move || {
                        for l in std::io::BufReader::new(stdout).lines().flatten() {
                            if tx.send(l).is_err() {
                                break;
                            }
                        }
                    });
                    let mut cur: Option<(usize, String)> = None;
                    let mut ended = false;
                    let mut hang = false;
                    loop {
                        match rx.recv_timeout(std::time::Duration::from_secs(20)) {
                            Ok(l) => {
                                if let Some(r) = l.strip_prefix("S ") {
                                    let mut it = r.splitn(2, ' ');
                                    let i: usize = it.next().unwrap().parse().unwrap();
                                    cur = Some((i, it.next().unwrap_or("").to_string()));
                                } else if let Some(r) = l.strip_prefix("V ") {
                                    if let Ok(j) = serde_json::from_str::<serde_json::Value>(r) {
                                        viols.push(Violation {
                                            prop: "C14".into(),
                                            class: j["class"].as_str().unwrap_or("").into(),
                                            detail: j["detail"].as_str().unwrap_or("").into(),
                                            replay: json!({"engine": "enum-c14", "input_index": j["i"], "tier": tier, "case": j["detail"]}),
                                        });
                                    }
                                } else if let Some(r) = l.strip_prefix("D ") {
                                    done += 1;
                                    let o = r.splitn(2, ' ').nth(1).unwrap_or("").to_string();
                                    if outcomes.insert(o.clone()) && samples.len() < 3 {
                                        if let Some((_, w)) = &cur {
                                            samples.push(format!("{} -> {}", w, o));
                                        }
                                    }
                                    cur = None;
                                } else if l == "END" {
                                    ended = true;
                                    break;
                                }
                            }
                            Err(std::sync::mpsc::RecvTimeoutError::Timeout) => {
                                hang = true;
                                let _ = child.kill();
                                break;
                            }
                            Err(_) => break,
                        }
                    }
                    let status = child.wait();
                    if ended {
                        break;
                    }
                    // abnormal end: attribute to the input that was running
                    match cur {
                        Some((i, w)) => {
                            let class = if hang { "hang".to_string() } else { format!("abort:{}", status.map(|s| s.to_string()).unwrap_or_default()) };
                            viols.push(Violation {
                                prop: "C14".into(),
                                class: class.chars().filter(|c| !c.is_ascii_digit()).collect(),
                                detail: format!("{}: the process handling this input {}", w, if hang { "made no progress for 20 s (unbounded loop)" } else { "was aborted (allocation failure / abort)" }),
                                replay: json!({"engine": "enum-c14", "input_index": i, "tier": tier, "case": w}),
                            });
                            done += 1;
                            start = i + 1;
                        }
                        None => break, // died outside an input: give up on this shard
                    }
                }
                (done, viols, outcomes, samples)
            })
        })
        .collect();
    let mut done = 0u64;
    let mut outcomes = std::collections::BTreeSet::new();
    let mut samples = vec![];
    for h in handles {
        let (d, v, o, s) = h.join().unwrap();
        done += d;
        run.add_all(v);
        outcomes.extend(o);
        samples.extend(s);
    }
    samples.truncate(12);
    if (done as usize) < total {
        eprintln!("machinery error: only {} of {} inputs were processed", done, total);
        return 2;
    }
    let cov = json!({
        "evaluations": done,
        "distinct_nontrivial": outcomes.len(),
        "rule": "deterministic enumeration: header buffers of every length 0..=200 and {511,512,513,4095,4096}; every header field x its boundary values singly and (reduced value set) in pairs; every incompatible bit; extension lengths 0..=100 and around buffer/cluster ends for 4 extension types; backing-name boundaries; every one of the first L1/L2/reftable entries x 20 bad encodings; corrupted compressed payloads - on 4 base images (v2/v3, cluster 512..64K); each opened through the library and driven with read/get_mapping/check/write/flush; distinct_nontrivial = distinct outcome signatures",
        "samples": samples,
        "inputs_total": total,
        "outcome_signatures": outcomes.len(),
        "exhaustive": true,
    });
    run.finish(cov, vec![
        "inputs run in worker sub-processes under a counting allocator (single allocation > 3 GiB refused) and a 20 s no-progress watchdog".into(),
        "arbitrary byte strings beyond single/pairwise field mutations are outside the bound".into(),
    ])
}
