//! C08 — allocator / ownership scenario for the HIST engine.
use crate::hist::{Eval, Scenario};
use crate::images::ImageSet;
use crate::report::Violation;
use crate::seq::{err_category, op_kind};
use crate::spec::check_image;
use crate::world::*;
use serde_json::json;
use std::hash::{Hash, Hasher};

pub struct AllocScenario {
    pub img: ImageSet,
    pub cfg: DevCfg,
    pub cfg_name: String,
    pub alphabet: Vec<Op>,
    pub prop: String,
}

impl AllocScenario {
    fn viol(&self, class: String, detail: String, hist: &[Op]) -> Violation {
        Violation {
            prop: self.prop.clone(),
            class: format!("{}|img={}", class, self.img.kind),
            detail: format!("{} [image {} cfg {} history: {}]", detail, self.img.name, self.cfg_name, hist_str(hist)),
            replay: json!({
                "engine": "hist", "image": self.img.name, "cfg": self.cfg.describe(), "cfg_json": self.cfg.to_json(), "cfg_name": self.cfg_name,
                "salt": 0, "history": hist.iter().map(|o| o.to_json()).collect::<Vec<_>>(), "history_str": hist_str(hist),
            }),
        }
    }

    fn world(&self) -> Result<World, String> {
        World::new(self.img.files.clone(), self.img.rd.clone(), &self.cfg, &self.cfg)
    }
}

/// flush the world and return (stored refcount, reference count) per host cluster plus the checker report
fn settled(w: &mut World) -> Result<crate::spec::Report, String> {
    let r = w.step(&Op::Flush);
    if !r.ok {
        return Err(format!("flush failed: {}", r.short()));
    }
    Ok(check_image(&w.sim.borrow().files[0]))
}

impl Scenario for AllocScenario {
    fn name(&self) -> String {
        format!("{}/{}", self.img.name, self.cfg_name)
    }
    fn alphabet(&self) -> Vec<Op> {
        self.alphabet.clone()
    }
    fn eval(&self, hist: &[Op]) -> Eval {
        let mut ev = Eval { digest: 0, violations: vec![], prune: false, counters: [0; 8], outcome: 0 };
        let (prefix, last) = hist.split_at(hist.len() - 1);
        let last = &last[0];
        let mut w = match self.world() {
            Ok(w) => w,
            Err(e) => {
                ev.violations.push(self.viol(format!("open-failed:{}", err_category(&e)), e, &[]));
                ev.prune = true;
                return ev;
            }
        };
        for op in prefix {
            let _ = w.step(op);
        }
        // twin of the pre-state, settled, to know which clusters were free before the operation
        let pre = if matches!(last, Op::Alloc(_)) {
            let mut t = self.world().unwrap();
            for op in prefix {
                let _ = t.step(op);
            }
            settled(&mut t).ok()
        } else {
            None
        };
        let runs_before = w.runs.clone();
        let res = w.step(last);
        let mut oh = std::collections::hash_map::DefaultHasher::new();
        res.hash(&mut oh);
        op_kind(last).hash(&mut oh);
        ev.outcome = oh.finish();
        let cb = self.img.cluster_bits;
        if let Some(p) = &res.panic {
            ev.violations.push(self.viol(format!("panic:{}:{}", op_kind(last), err_category(p)), format!("{} panicked: {}", last.short(), p), hist));
            ev.prune = true;
            return ev;
        }
        if !res.ok {
            ev.violations.push(self.viol(
                format!("op-failed:{}:{}", op_kind(last), err_category(res.err.as_deref().unwrap_or(""))),
                format!("{} returned {}", last.short(), res.short()),
                hist,
            ));
            ev.prune = true;
            return ev;
        }
        if let (Op::Alloc(n), Some((off, cnt))) = (last, res.alloc) {
            if cnt == 0 || cnt > *n {
                ev.violations.push(self.viol("alloc:bad-count".into(), format!("allocate_clusters({}) returned {} clusters", n, cnt), hist));
            }
            if off & ((1u64 << cb) - 1) != 0 {
                ev.violations.push(self.viol("alloc:unaligned".into(), format!("allocate_clusters({}) returned offset {:#x}", n, off), hist));
            }
            for k in 0..cnt as u64 {
                let c = (off >> cb) + k;
                if runs_before.iter().any(|(o, n)| c >= (o >> cb) && c < (o >> cb) + *n as u64) {
                    ev.violations.push(self.viol("alloc:handed-out-twice".into(), format!("host cluster {:#x} was handed out while another requester still holds it", c), hist));
                    ev.prune = true;
                }
                if let Some(pre) = &pre {
                    let was_ref = pre.refs.contains_key(&c);
                    let was_leak = pre.leaked.iter().any(|l| l.0 == c);
                    if was_ref || was_leak {
                        ev.violations.push(self.viol(
                            format!("alloc:cluster-not-free:{}", if was_ref { "referenced" } else { "refcount-nonzero" }),
                            format!("allocate_clusters({}) handed out host cluster {:#x} which was not free before the call (references {:?})", n, c, pre.refs.get(&c)),
                            hist,
                        ));
                        ev.prune = true;
                    }
                }
            }
        }
        ev.digest = w.digest(false);
        // ---- ownership at the quiescent state: settle and check ----
        let runs = w.runs.clone();
        // guest content first (a double allocation shows up as foreign data)
        let bs = 1usize << self.cfg.bs_bits;
        if let Some(m) = sweep(w.dev(), &w.rd, bs, false).first() {
            ev.violations.push(self.viol(format!("guest-content:{}", op_kind(last)), format!("after {}: read_at({:#x},{}): {}", last.short(), m.off, m.len, m.what), hist));
            ev.prune = true;
        }
        match settled(&mut w) {
            Ok(rep) => {
                if let Some((c, d)) = rep.first_problem(false) {
                    ev.violations.push(self.viol(format!("ownership:{}:{}", c, op_kind(last)), d, hist));
                    ev.prune = true;
                }
                let in_runs = |c: u64| runs.iter().any(|(o, n)| c >= (o >> cb) && c < (o >> cb) + *n as u64);
                for (c, st, n) in rep.leaked.iter() {
                    if !in_runs(*c) || *st != 1 || *n != 0 {
                        ev.violations.push(self.viol(
                            format!("ownership:leak:{}", op_kind(last)),
                            format!("host cluster {:#x} has stored refcount {} but {} references and no requester holds it", c, st, n),
                            hist,
                        ));
                        if !in_runs(*c) {
                            ev.prune = true;
                        }
                        break;
                    }
                }
                for (o, n) in runs.iter() {
                    for k in 0..*n as u64 {
                        let c = (o >> cb) + k;
                        if !rep.leaked.iter().any(|l| l.0 == c) {
                            ev.violations.push(self.viol(
                                format!("ownership:held-cluster-not-counted:{}", op_kind(last)),
                                format!("host cluster {:#x} is held by a requester but its stored refcount is not 1 / it is referenced by {:?}", c, rep.refs.get(&c)),
                                hist,
                            ));
                            ev.prune = true;
                        }
                    }
                }
            }
            Err(e) => {
                ev.violations.push(self.viol(format!("flush-failed:{}", err_category(&e)), e, hist));
                ev.prune = true;
            }
        }
        ev
    }
}
