//! C09 — specification conformance: foreign images built by SpecKit are read
//! correctly; images formatted by the library are valid under SpecKit's checker.
use crate::report::{Run, Violation};
use crate::seq::err_category;
use crate::simio::{Sim, SimIo};
use crate::spec::{self, check_image, Built, GKind, ImageSpec, BLK};
use crate::world::*;
use qcow2_rs::helpers::Qcow2IoBuf;
use qcow2_rs::meta::{MappingSource, Qcow2Header};
use rayon::prelude::*;
use serde_json::json;
use std::panic::{catch_unwind, AssertUnwindSafe};

#[derive(Clone, Debug)]
struct Case {
    version: u32,
    cb: u32,
    order: u32,
    /// kinds of the probe clusters: [0], [1], [l2e-1], [l2e], [last]
    kinds: Vec<GKind>,
    refcount_last: bool,
    short_l1: bool,
    backing: u8, // 0 none, 1 equal, 2 shorter
    default_params: bool,
    bs_bits: u8,
    ragged: bool,
    partial_last: bool,
    comp_pad: usize,
    /// version 3 header_length (0 = 112)
    hlen: u32,
}

impl Case {
    fn describe(&self) -> String {
        format!(
            "v{} header_length {} cluster_bits {} refcount_order {} kinds {:?} refcount_last {} short_l1 {} backing {} params {} bs {} ragged_end {} partial_last_cluster {} comp_pad {}",
            self.version,
            if self.version == 2 { 72 } else if self.hlen == 0 { 112 } else { self.hlen },
            self.cb,
            self.order,
            self.kinds,
            self.refcount_last,
            self.short_l1,
            ["none", "equal", "shorter"][self.backing as usize],
            if self.default_params { "default" } else { "custom" },
            1u32 << self.bs_bits,
            self.ragged,
            self.partial_last,
            self.comp_pad
        )
    }
}

fn build_case(c: &Case) -> (Vec<Built>, Vec<usize>) {
    let cs = 1u64 << c.cb;
    let l2e = (cs / 8) as usize;
    let ncl = l2e + 2;
    let vsize = (ncl as u64) * cs - if c.partial_last { cs / 2 + 512 } else { 0 };
    let probes = vec![0usize, 1, l2e - 1, l2e, ncl - 1];
    let mut s = ImageSpec::new(c.cb, c.order, vsize);
    s.version = c.version;
    s.header_length = if c.version >= 3 { c.hlen } else { 0 };
    s.kinds = vec![GKind::Unalloc; ncl];
    for (p, k) in probes.iter().zip(c.kinds.iter()) {
        s.kinds[*p] = k.clone();
    }
    s.refcount_last = c.refcount_last;
    s.short_l1 = c.short_l1;
    s.ragged_end = c.ragged;
    s.comp_pad = c.comp_pad;
    s.comp_separate = c.order < 2;
    s.extensions = c.cb >= 10;
    let mut out = vec![];
    if c.backing > 0 {
        s.backing_name = Some("sim1".into());
        // (a virtual size is a multiple of 512)
        let bv = if c.backing == 1 { vsize } else { (cs + cs / 2) & !511 };
        let mut b = ImageSpec::new(c.cb, c.order.max(2), bv);
        b.version = c.version;
        b.tag_base = 0xBA0000;
        let bcl = b.guest_clusters();
        b.kinds = vec![GKind::Unalloc; bcl];
        for p in probes.iter().chain([2usize].iter()) {
            if *p < bcl {
                b.kinds[*p] = GKind::Data;
            }
        }
        out.push(spec::build_image(&s));
        out.push(spec::build_image(&b));
    } else {
        out.push(spec::build_image(&s));
    }
    (out, probes)
}

fn expected_words(chain: &[Built], cluster: usize, cb: u32) -> Vec<u64> {
    let cs = 1usize << cb;
    let n = cs / BLK;
    for (i, img) in chain.iter().enumerate() {
        let off = (cluster as u64) << cb;
        if off >= img.spec.virtual_size {
            return vec![0; n];
        }
        let t = &img.truth[cluster];
        if t.kind != GKind::Unalloc {
            // a backing image may end inside this cluster
            let mut w = t.words.clone();
            if i > 0 {
                let valid = ((img.spec.virtual_size - off).min(cs as u64) as usize) / BLK;
                for x in w.iter_mut().skip(valid) {
                    *x = 0;
                }
            }
            return w;
        }
    }
    vec![0; n]
}

fn run_case(c: &Case) -> (Vec<Violation>, String) {
    let mut out = vec![];
    let mk = |class: String, detail: String| Violation {
        prop: "C09".into(),
        class,
        detail: format!("{} [{}]", detail, c.describe()),
        replay: json!({"engine":"enum-c09","case":c.describe()}),
    };
    let (chain, probes) = match catch_unwind(AssertUnwindSafe(|| build_case(c))) {
        Ok(x) => x,
        Err(p) => return (vec![mk("builder-failed".into(), panic_msg(p))], "builder".into()),
    };
    // the builder's image must satisfy the independent checker (oracle self-check)
    let rep = check_image(&chain[0].bytes);
    if let Some((cl, d)) = rep.first_problem(true) {
        return (vec![mk(format!("builder-image-invalid:{}", cl), d)], "builder-invalid".into());
    }
    let cs = 1usize << c.cb;
    // a third of the cases: the preallocation of a zero-flagged cluster is not exclusively owned (as after an
    // internal snapshot) - its L2 entry has COPIED clear; it still reads as zeros and maps the same offset
    let mut chain = chain;
    if c.hlen == 120 {
        let wanted: Vec<u64> = chain[0].truth.iter().filter(|t| t.kind == GKind::ZeroPrealloc).map(|t| (1u64 << 63) | t.host_off | 1).collect();
        let bytes = &mut chain[0].bytes;
        for o in (0..bytes.len() / 8 * 8).step_by(8) {
            let v = u64::from_be_bytes(bytes[o..o + 8].try_into().unwrap());
            if v >> 63 == 1 && wanted.contains(&v) {
                bytes[o] &= 0x7f;
            }
        }
    }
    let sim = Sim::new(chain.iter().map(|b| b.bytes.clone()).collect());
    let sb = c.cb.min(12) as u8;
    let sb = sb.max(c.bs_bits);
    let cfg = if c.default_params { DevCfg { bs_bits: c.bs_bits, l2: None, rb: None } } else { DevCfg { bs_bits: c.bs_bits, l2: Some((sb, 2usize << sb)), rb: Some((sb, 2usize << sb)) } };
    let dev = match open_chain(&sim, 0, &cfg, false) {
        Ok(d) => d,
        Err(e) => {
            let cl = if e.starts_with("PANIC") { "open-panic" } else { "open-failed" };
            return (vec![mk(format!("{}:{}", cl, err_category(&e)), e)], "open-failed".into());
        }
    };
    let vsize = chain[0].spec.virtual_size;
    let bs = 1usize << c.bs_bits;
    let mut check: Vec<usize> = probes.clone();
    check.extend([2usize, (probes[2]).saturating_sub(1)]);
    check.sort();
    check.dedup();
    for cl in check {
        let off = (cl as u64) << c.cb;
        if off >= vsize {
            continue;
        }
        let t = &chain[0].truth[cl];
        // ---- get_mapping ----
        match catch_unwind(AssertUnwindSafe(|| crate::world::block_on(dev.get_mapping(off)))) {
            Ok(Ok(m)) => {
                let ok = match t.kind {
                    GKind::Data => m.source == MappingSource::DataFile && m.cluster_offset == Some(t.host_off),
                    GKind::Zero => m.source == MappingSource::Zero && m.cluster_offset.is_none(),
                    GKind::ZeroPrealloc => m.source == MappingSource::Zero && m.cluster_offset == Some(t.host_off),
                    GKind::Compressed => {
                        let nsec = ((t.host_off & 511) as usize + t.comp_len + 511) / 512;
                        let bound = nsec * 512 - (t.host_off & 511) as usize;
                        m.source == MappingSource::Compressed && m.cluster_offset == Some(t.host_off) && m.compressed_length == Some(bound)
                    }
                    GKind::Unalloc => {
                        if c.backing > 0 {
                            m.source == MappingSource::Backing
                        } else {
                            m.source == MappingSource::Unallocated
                        }
                    }
                };
                if !ok {
                    out.push(mk(format!("mapping:{:?}", t.kind), format!("guest cluster {}: get_mapping says {} but the image holds {:?} at {:#x} (+{})", cl, m, t.kind, t.host_off, t.comp_len)));
                }
            }
            Ok(Err(e)) => out.push(mk(format!("mapping-error:{:?}", t.kind), format!("guest cluster {}: get_mapping failed: {e:?}", cl))),
            Err(p) => out.push(mk(format!("mapping-panic:{:?}", t.kind), format!("guest cluster {}: get_mapping panicked: {}", cl, panic_msg(p)))),
        }
        // ---- read_at: whole cluster (clipped to the virtual size) and one inner block ----
        let want = expected_words(&chain, cl, c.cb);
        let full = ((vsize - off).min(cs as u64) as usize) / bs * bs;
        for (roff, rlen) in [(0usize, full), ((cs / 2 / bs * bs).min(full.saturating_sub(bs)), bs)] {
            if rlen == 0 || roff + rlen > full {
                continue;
            }
            let mut b = Qcow2IoBuf::<u8>::new(rlen);
            for x in b.iter_mut() {
                *x = 0x5a;
            }
            match catch_unwind(AssertUnwindSafe(|| crate::world::block_on(dev.read_at(&mut b, off + roff as u64)))) {
                Ok(Ok(n)) if n == rlen => {
                    let got = decode_read(&b);
                    for (i, g) in got.iter().enumerate() {
                        let e = want[roff / BLK + i];
                        if *g != Some(e) {
                            out.push(mk(
                                format!("read:{:?}:expected-{}-got-{}", t.kind, if e == 0 { "zeros" } else { "data" }, classify_word(*g)),
                                format!("guest cluster {} (+{:#x},{}): block {} expected {} got {}", cl, roff, rlen, i, describe_word(Some(e)), describe_word(*g)),
                            ));
                            break;
                        }
                    }
                }
                Ok(Ok(n)) => out.push(mk(format!("read-short:{:?}", t.kind), format!("guest cluster {}: read_at returned Ok({}) of {}", cl, n, rlen))),
                Ok(Err(e)) => out.push(mk(format!("read-error:{:?}:{}", t.kind, err_category(&format!("{e:?}"))), format!("guest cluster {} (+{:#x},{}): read_at failed: {e:?}", cl, roff, rlen))),
                Err(p) => out.push(mk(format!("read-panic:{:?}", t.kind), format!("guest cluster {}: read_at panicked: {}", cl, panic_msg(p)))),
            }
        }
    }
    // read-only source: nothing but reads reached the files
    if sim.borrow().reqs.iter().any(|r| r.kind.is_modifying()) {
        out.push(mk("reads-modified-the-image".into(), "opening / reading a foreign image sent a modifying request".into()));
    }
    let _ = SimIo::new(&sim, 0);
    (out, format!("v{}:cb{}:o{}:{}", c.version, c.cb, c.order, c.kinds.iter().map(|k| format!("{:?}", k).chars().next().unwrap()).collect::<String>()))
}

fn all_kinds(version: u32) -> Vec<GKind> {
    if version == 2 {
        vec![GKind::Unalloc, GKind::Data, GKind::Compressed]
    } else {
        vec![GKind::Unalloc, GKind::Data, GKind::Zero, GKind::ZeroPrealloc, GKind::Compressed]
    }
}

fn cases(thorough: bool) -> Vec<Case> {
    let mut v = vec![];
    let mut cbs: Vec<u32> = if thorough { (9..=21).collect() } else { vec![9, 10, 12, 16, 21] };
    if let Ok(f) = std::env::var("QMC_C09_CBS") {
        cbs = f.split(',').filter_map(|x| x.parse().ok()).collect();
    }
    for &cb in cbs.iter() {
        let orders: Vec<(u32, u32)> = if thorough { (0..=6).map(|o| (3, o)).chain([(2, 4)]).collect() } else { vec![(3, 0), (3, 3), (3, 4), (3, 6), (2, 4)] };
        for (version, order) in orders {
            let ks = all_kinds(version);
            // mixed assignments: rotate the kind list over the five probes
            let rotations = if thorough && cb <= 12 { ks.len() } else { 2 };
            for rot in 0..rotations {
                let kinds: Vec<GKind> = (0..5).map(|i| ks[(i + rot + (i / 2)) % ks.len()].clone()).collect();
                for refcount_last in [false, true] {
                    for short_l1 in [false, true] {
                        for backing in 0..3u8 {
                            if !thorough && (refcount_last != short_l1) && backing == 1 {
                                continue;
                            }
                            for default_params in [false, true] {
                                let bs_list: Vec<u8> = if default_params { vec![9] } else if cb >= 12 { vec![9, 12] } else { vec![9] };
                                for bs_bits in bs_list {
                                    for ragged in [false, true] {
                                        if cb >= 16 && (ragged != refcount_last || short_l1 != refcount_last || (backing == 1) || (default_params && backing == 2)) {
                                            continue; // big images: pair the dimensions up
                                        }
                                        if !thorough && cb >= 12 && cb < 16 && ragged != short_l1 {
                                            continue;
                                        }
                                        let comp_pad = if rot % 2 == 0 { 100 } else { (1usize << cb) - 8 };
                                        let hlen = [0u32, 104, 120][(rot + order as usize + cb as usize + refcount_last as usize) % 3];
                                        v.push(Case { version, cb, order, kinds: kinds.clone(), refcount_last, short_l1, backing, default_params, bs_bits, ragged, partial_last: rot % 2 == 1, comp_pad, hlen });
                                    }
                                }
                            }
                        }
                    }
                }
            }
        }
    }
    if thorough {
        // every assignment of kinds to the first three probes on small clusters
        for cb in [9u32, 10, 12] {
            for version in [2u32, 3] {
                let ks = all_kinds(version);
                for a in ks.iter() {
                    for b in ks.iter() {
                        for c in ks.iter() {
                            for backing in [0u8, 2] {
                                v.push(Case { version, cb, order: 4, kinds: vec![a.clone(), b.clone(), c.clone(), GKind::Data, GKind::Compressed], refcount_last: false, short_l1: false, backing, default_params: backing == 0, bs_bits: 9, ragged: true, partial_last: true, comp_pad: (1usize << cb) - 40, hlen: if backing == 2 { 104 } else { 0 } });
                            }
                        }
                    }
                }
            }
        }
    }
    v
}

fn format_part(thorough: bool, out: &mut Vec<Violation>, evals: &mut u64, samples: &mut Vec<String>, refused: &mut u64) {
    let cbs: Vec<u32> = if thorough { (9..=21).collect() } else { vec![9, 12, 16, 21] };
    for cb in cbs {
        let cs = 1u64 << cb;
        // what a maximal L1 table (32 MiB) can map
        let limit = (4u64 << 20) * (cs / 8) * cs;
        for order in 0u32..=6 {
            for size in [cs, 1 << 20, (1 << 20) + 512, 64 << 20, 64u64 << 30, 2u64 << 40, (64u64 << 20) + cs / 2] {
                if size > limit || size > (1u64 << 45) && cb < 12 {
                    continue;
                }
                for bs in [512usize, 4096] {
                    if bs as u64 > cs {
                        continue;
                    }
                    *evals += 1;
                    let case = format!("format_qcow2(size {}, cluster_bits {}, refcount_order {}, block size {})", size, cb, order, bs);
                    let mk = |class: String, detail: String| Violation { prop: "C09".into(), class, detail: format!("{} [{}]", detail, case), replay: json!({"engine":"enum-c09-format","case":case}) };
                    let r = catch_unwind(AssertUnwindSafe(|| {
                        let (rc_t, rc_b, _) = Qcow2Header::calculate_meta_params(size, cb as usize, order as u8, bs);
                        let clusters = 1 + rc_t.1 + rc_b.1;
                        let mut buf = vec![0u8; ((clusters as usize) << cb) + bs];
                        Qcow2Header::format_qcow2(&mut buf, size, cb as usize, order as u8, bs).map_err(|e| format!("{e:?}"))?;
                        Ok::<Vec<u8>, String>(buf)
                    }));
                    let buf = match r {
                        Ok(Ok(b)) => b,
                        Ok(Err(_)) => {
                            *refused += 1; // the formatter declines this geometry: no image, nothing to validate
                            continue;
                        }
                        Err(p) => {
                            out.push(mk(format!("format-panic:{}", err_category(&panic_msg(p))), "format_qcow2 panicked".into()));
                            continue;
                        }
                    };
                    let rep = check_image(&buf);
                    if let Some((c, d)) = rep.first_problem(true) {
                        out.push(mk(format!("formatted-image-invalid:{}", c), d));
                        continue;
                    }
                    let h = rep.header;
                    let l2e = cs / 8;
                    let want_l1 = (size + l2e * cs - 1) / (l2e * cs);
                    if h.size != size || h.cluster_bits != cb || h.refcount_order != order || h.l1_size as u64 != want_l1 || h.version != 3 {
                        out.push(mk("formatted-header-fields".into(), format!("header {:?}", h)));
                    }
                    // derived geometry
                    let sb = cb.min(12) as u8;
                    let sb = sb.max(bs.trailing_zeros() as u8);
                    let params = qcow2_rs::dev::Qcow2DevParams::new(bs.trailing_zeros() as u8, Some((sb, 2usize << sb)), Some((sb, 2usize << sb)), false, false);
                    match catch_unwind(AssertUnwindSafe(|| Qcow2Header::from_buf(&buf[..buf.len().min(4096)]).and_then(|h| qcow2_rs::dev::Qcow2Info::new(&h, &params)))) {
                        Ok(Ok(info)) => {
                            let g = info.verif_geometry();
                            if info.cluster_size() as u64 != cs
                                || info.l2_entries() as u64 != l2e
                                || info.rb_entries() as u64 != (cs * 8) >> order
                                || g.l2_slice_entries as u64 != (1u64 << sb) / 8
                                || g.rb_slice_entries as u64 != (8u64 << sb) >> order
                                || g.virtual_size != size
                                || g.max_l1_entries as u64 != want_l1.min(4 << 20)
                            {
                                out.push(mk("formatted-geometry".into(), format!("{:?}", g)));
                            }
                        }
                        Ok(Err(e)) => out.push(mk("formatted-image-rejected".into(), format!("{e:?}"))),
                        Err(p) => out.push(mk("formatted-image-panic".into(), panic_msg(p))),
                    }
                    if samples.len() < 3 && order == 4 {
                        samples.push(case);
                    }
                }
            }
        }
    }
}

/// header l1_size smaller than the virtual size needs: guest clusters beyond it are unallocated
fn short_l1_far(out: &mut Vec<Violation>, evals: &mut u64, samples: &mut Vec<String>) {
    for cb in [9u32, 10, 12] {
        for default_params in [false, true] {
            let cs = 1u64 << cb;
            let l2e = (cs / 8) as usize;
            let l1_per_cluster = l2e; // 8-byte entries
            let tables = 3 * l1_per_cluster;
            let mut s = ImageSpec::new(cb, 4, (tables * l2e) as u64 * cs);
            s.kinds = vec![GKind::Unalloc; tables * l2e];
            s.kinds[0] = GKind::Data;
            s.kinds[1] = GKind::Data;
            s.kinds[2] = GKind::Data;
            s.short_l1 = true;
            let b = spec::build_image(&s);
            let case = format!("cluster_bits {} virtual size {} tables, header l1_size {} (short), {} params", cb, tables, b.l1_entries, if default_params { "default" } else { "custom" });
            let mk = |class: String, detail: String| Violation { prop: "C09".into(), class, detail: format!("{} [{}]", detail, case), replay: json!({"engine":"enum-c09-shortl1","case":case}) };
            let sim = Sim::new(vec![b.bytes.clone()]);
            let sb = cb.min(12) as u8;
            let cfg = if default_params { DevCfg { bs_bits: 9, l2: None, rb: None } } else { DevCfg { bs_bits: 9, l2: Some((sb, 2usize << sb)), rb: Some((sb, 2usize << sb)) } };
            let dev = match open_chain(&sim, 0, &cfg, false) {
                Ok(d) => d,
                Err(e) => {
                    out.push(mk(format!("short-l1:open-failed:{}", err_category(&e)), e));
                    continue;
                }
            };
            // probe the first clusters of L1 entries that live in the second and third L1 cluster
            for l1i in [1usize, l1_per_cluster, l1_per_cluster + 1, l1_per_cluster + 2, 2 * l1_per_cluster, tables - 1] {
                for k in [0usize, 1, 2] {
                    *evals += 1;
                    let off = ((l1i * l2e + k) as u64) << cb;
                    match catch_unwind(AssertUnwindSafe(|| crate::world::block_on(dev.get_mapping(off)))) {
                        Ok(Ok(m)) => {
                            if m.source != MappingSource::Unallocated {
                                out.push(mk(
                                    "short-l1:beyond-l1_size-mapped".into(),
                                    format!("guest cluster of L1 index {} (+{}) lies beyond the header's l1_size ({}) but get_mapping says {}", l1i, k, b.l1_entries, m),
                                ));
                            }
                        }
                        Ok(Err(e)) => out.push(mk("short-l1:mapping-failed".into(), format!("L1 index {}: {e:?}", l1i))),
                        Err(p) => out.push(mk("short-l1:mapping-panic".into(), panic_msg(p))),
                    }
                    let mut buf = Qcow2IoBuf::<u8>::new(cs as usize);
                    for x in buf.iter_mut() {
                        *x = 0x5a;
                    }
                    match catch_unwind(AssertUnwindSafe(|| crate::world::block_on(dev.read_at(&mut buf, off)))) {
                        Ok(Ok(n)) if n == cs as usize => {
                            if let Some(i) = decode_read(&buf).iter().position(|w| *w != Some(0)) {
                                out.push(mk(
                                    "short-l1:beyond-l1_size-not-unallocated".into(),
                                    format!("guest cluster of L1 index {} (+{}) lies beyond the header's l1_size and must read zeros, block {} reads {}", l1i, k, i, describe_word(decode_read(&buf)[i])),
                                ));
                            }
                        }
                        Ok(r) => out.push(mk("short-l1:read-failed".into(), format!("L1 index {}: {:?}", l1i, r.map_err(|e| format!("{e:?}"))))),
                        Err(p) => out.push(mk("short-l1:read-panic".into(), panic_msg(p))),
                    }
                }
            }
            if samples.len() < 8 {
                samples.push(format!("short L1: {}", case));
            }
        }
    }
}

pub fn c09() -> i32 {
    let run = Run::new("C09", "exploration");
    let thorough = run.thorough();
    qcow2_rs::verif::set_order_salt(0);
    let cs = cases(thorough);
    let results: Vec<(Vec<Violation>, String)> = cs.par_iter().map(run_case).collect();
    let mut distinct = std::collections::BTreeSet::new();
    let mut evals = 0u64;
    for (v, o) in results {
        evals += 1;
        distinct.insert(o);
        run.add_all(v);
    }
    let mut samples: Vec<String> = cs.iter().step_by(cs.len() / 5 + 1).map(|c| c.describe()).collect();
    let mut fv = vec![];
    let mut refused = 0u64;
    format_part(thorough, &mut fv, &mut evals, &mut samples, &mut refused);
    short_l1_far(&mut fv, &mut evals, &mut samples);
    run.add_all(fv);
    let cov = json!({
        "evaluations": evals,
        "distinct_nontrivial": distinct.len(),
        "rule": "images built by the independent builder over the product cluster_bits x refcount_order (v3) and v2 x rotations of cluster kinds {unallocated, data, zero, zero+prealloc, compressed (inside / straddling a host cluster)} over five probe clusters (first, second, last of L2 table 0, first of table 1, last - partial when the size is not a cluster multiple) x table placement x L1 maximal/short x backing none/equal/shorter x custom/default parameters x block size x ragged/aligned file end; each opened and every probe cluster's get_mapping and read_at compared with the builder's ground truth; plus format_qcow2 over sizes x cluster_bits x refcount_order x block size judged by the independent checker and the specification's geometry formulas; distinct_nontrivial = distinct (version, cluster_bits, refcount_order, kind assignment) combinations",
        "samples": samples,
        "foreign_images": cs.len(),
        "format_geometries_refused_by_formatter": refused,
        "exhaustive": true,
    });
    run.finish(cov, vec!["builder output is validated by the independent checker before use; miniz_oxide produces the deflate streams".into(), "images larger than a few MiB of host file and snapshots are outside the bound".into()])
}
