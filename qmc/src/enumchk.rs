//! ENUM — bounded-exhaustive input enumeration against independent oracles
//! (C13 request validation, C15 codecs, C14 malformed images, C09 conformance).
use crate::images::{from_specs, ImageSet};
use crate::report::{Run, Violation};
use crate::seq::err_category;
use crate::simio::{Kind, Sim};
use crate::spec::{self, GKind, ImageSpec, BLK};
use crate::world::*;
use qcow2_rs::helpers::Qcow2IoBuf;
use rayon::prelude::*;
use serde_json::json;
use std::panic::{catch_unwind, AssertUnwindSafe};

// =====================================================================
// C13
// =====================================================================
fn c13_image(cb: u32) -> ImageSet {
    let mut s = ImageSpec::new(cb, 4, 32 << cb);
    s.kinds = vec![GKind::Unalloc; 32];
    s.kinds[0] = GKind::Data;
    s.kinds[1] = GKind::Data;
    s.kinds[31] = GKind::Data;
    from_specs("c13", "data", vec![s])
}

pub fn c13() -> i32 {
    let run = Run::new("C13", "exploration");
    let mut imgs: Vec<ImageSet> = [9u32, 12, 16].iter().map(|cb| c13_image(*cb)).collect();
    // a virtual size that is a sector multiple but no multiple of the bigger block sizes (write verdicts only:
    // the partial last block is the one place where "within the virtual size" and "block aligned" disagree)
    imgs.push({
        let mut s = ImageSpec::new(12, 4, (31 << 12) + 512);
        s.kinds = vec![GKind::Unalloc; 32];
        s.kinds[0] = GKind::Data;
        s.kinds[31] = GKind::Data;
        from_specs("c13-ragged", "data", vec![s])
    });
    const RAGGED: usize = 3;
    let mut cases: Vec<(usize, u8, &'static str, &'static str, u64, usize)> = vec![];
    for (ii, img) in imgs.iter().enumerate() {
    let v = img.rd.vsize;
    let cs = 1u64 << img.cluster_bits;
    for bs_bits in [9u8, 10, 11, 12] {
        if bs_bits as u32 > img.cluster_bits {
            continue;
        }
        let bs = 1u64 << bs_bits;
        let mut offs = vec![0, 1, bs / 2, bs - 1, bs, v - bs, v - 1, v, v + 1, v + bs, 1 << 32, 1 << 63, u64::MAX - bs + 1, u64::MAX - 1, u64::MAX];
        if ii == RAGGED {
            offs.extend([v & !(bs - 1), (v & !(bs - 1)) - bs, (v & !(bs - 1)) + bs, v - 512]);
        }
        let lens = [0usize, 1, (bs - 1) as usize, bs as usize, (bs + 1) as usize, (2 * bs) as usize, cs as usize, (cs + bs) as usize, (3 * cs) as usize];
        for mode in ["rw", "ro", "backing"] {
            for op in ["read", "write", "discard"] {
                if ii == RAGGED && op != "write" {
                    continue;
                }
                for &o in offs.iter() {
                    for l in lens {
                        cases.push((ii, bs_bits, mode, op, o, l));
                    }
                }
                if op == "discard" {
                    for &o in offs.iter() {
                        for l in [v, u64::MAX, u64::MAX - cs] {
                            cases.push((ii, bs_bits, mode, "discard-big", o, l as usize));
                        }
                    }
                }
            }
        }
    }
    }
    qcow2_rs::verif::set_order_salt(0);
    let results: Vec<(Vec<Violation>, String)> = cases
        .par_iter()
        .map(|&(ii, bs_bits, mode, op, off, len)| {
            let mut out = vec![];
            let img = &imgs[ii];
            let v = img.rd.vsize;
            let bs = 1u64 << bs_bits;
            let sb = img.cluster_bits.min(12) as u8;
            let cfg = DevCfg { bs_bits, l2: Some((sb, 2usize << sb)), rb: Some((sb, 2usize << sb)) };
            let sim = Sim::new(img.files.clone());
            let params = {
                let mut p = cfg.params(mode != "rw", false);
                if mode == "backing" {
                    p.mark_backing_dev(Some(true));
                }
                p
            };
            let mk = |class: String, detail: String| Violation {
                prop: "C13".into(),
                class: format!("{}|mode={}", class, mode),
                detail: format!("{} [cluster_bits={} bs={} mode={} {}(off={:#x}, len={:#x})]", detail, img.cluster_bits, bs, mode, op, off, len),
                replay: json!({"engine":"enum-c13","cluster_bits":img.cluster_bits,"bs_bits":bs_bits,"mode":mode,"op":op,"off":off,"len":len}),
            };
            let dev = match catch_unwind(AssertUnwindSafe(|| {
                let (d, _) = crate::world::block_on(qcow2_rs::utils::qcow2_alloc_dev(
                    std::path::Path::new("sim0"),
                    crate::simio::SimIo::new(&sim, 0),
                    &params,
                ))
                .map_err(|e| format!("{e:?}"))?;
                crate::world::block_on(d.qcow2_prep_io()).map_err(|e| format!("{e:?}"))?;
                Ok::<Dev, String>(d)
            })) {
                Ok(Ok(d)) => d,
                Ok(Err(e)) => return (vec![mk("open-failed".into(), e)], "open-failed".into()),
                Err(e) => return (vec![mk("open-panic".into(), panic_msg(e))], "open-panic".into()),
            };
            let before_file = sim.borrow().files[0].clone();
            let log_start = sim.borrow().reqs.len();
            let aligned = off % bs == 0 && (len as u64) % bs == 0;
            let blen = if op == "read" || op == "write" { len } else { 0 };
            let mut rbuf = Qcow2IoBuf::<u8>::new(blen.max(1));
            for x in rbuf.iter_mut() {
                *x = 0x5a;
            }
            let wbuf = make_write_buf(blen / BLK * BLK + BLK, 0x77);
            let res: Result<Result<usize, String>, String> = catch_unwind(AssertUnwindSafe(|| match op {
                "read" => crate::world::block_on(dev.read_at(&mut rbuf[..len], off)).map_err(|e| format!("{e:?}")),
                "write" => crate::world::block_on(dev.write_at(&wbuf[..len], off)).map(|_| len).map_err(|e| format!("{e:?}")),
                _ => crate::world::block_on(dev.discard(off, len as u64)).map(|_| 0).map_err(|e| format!("{e:?}")),
            }))
            .map_err(panic_msg);
            let outcome = match &res {
                Err(_) => "panic".to_string(),
                Ok(Err(_)) => "Err".to_string(),
                Ok(Ok(n)) => format!("Ok({})", if *n == len { "len".into() } else { n.to_string() }),
            };
            let res = match res {
                Err(p) => {
                    out.push(mk(format!("panic:{}:{}", op, err_category(&p)), format!("panicked: {}", p)));
                    return (out, outcome);
                }
                Ok(r) => r,
            };
            let modified = sim.borrow().reqs[log_start..].iter().any(|r| r.kind.is_modifying());
            let file_changed = sim.borrow().files[0] != before_file;
            let in_range = off.checked_add(len as u64).map_or(false, |e| e <= v);
            // ---- expected verdict from the statement ----
            match op {
                "read" => {
                    if off >= v {
                        if mode != "backing" && res.is_ok() {
                            out.push(mk("read:beyond-end-accepted".into(), format!("returned {:?}", res)));
                        }
                    } else if len == 0 {
                        if !(res == Ok(0) || (res.is_err() && off % bs != 0)) {
                            out.push(mk("read:zero-length".into(), format!("returned {:?}", res)));
                        }
                    } else if !aligned {
                        if res.is_ok() {
                            out.push(mk("read:unaligned-accepted".into(), format!("returned {:?}", res)));
                        }
                    } else if !in_range {
                        let clamped = ((v - off) / bs * bs) as usize;
                        let want = if mode == "backing" { len } else { clamped };
                        if res != Ok(want) {
                            out.push(mk("read:clamp".into(), format!("returned {:?}, documented count {}", res, want)));
                        } else {
                            let got = decode_read(&rbuf[..clamped]);
                            for (i, g) in got.iter().enumerate() {
                                let e = img.rd.blocks[off as usize / BLK + i];
                                if *g != Some(e) {
                                    out.push(mk("read:clamp-data".into(), format!("block {}: expected {} got {}", i, describe_word(Some(e)), describe_word(*g))));
                                    break;
                                }
                            }
                        }
                    } else if res != Ok(len) {
                        out.push(mk("read:valid-rejected".into(), format!("returned {:?}", res)));
                    } else {
                        let got = decode_read(&rbuf[..len]);
                        for (i, g) in got.iter().enumerate() {
                            let e = img.rd.blocks[off as usize / BLK + i];
                            if *g != Some(e) {
                                out.push(mk("read:data".into(), format!("block {}: expected {} got {}", i, describe_word(Some(e)), describe_word(*g))));
                                break;
                            }
                        }
                    }
                    if modified {
                        out.push(mk("read:modifying-request".into(), "a read sent a modifying request".into()));
                    }
                }
                "write" => {
                    let must_fail = mode != "rw" || !in_range || (!aligned && len != 0) || (len == 0 && off % bs != 0 && false);
                    if must_fail && res.is_ok() && !(len == 0 && mode == "rw") {
                        out.push(mk(
                            format!("write:invalid-accepted:{}", if mode != "rw" { "read-only" } else if !in_range { "beyond-end" } else { "unaligned" }),
                            format!("returned {:?}", res),
                        ));
                    }
                    if !must_fail && len != 0 && res.is_err() {
                        out.push(mk("write:valid-rejected".into(), format!("returned {:?}", res)));
                    }
                    if res.is_err() || len == 0 {
                        if modified || file_changed {
                            out.push(mk(format!("write:side-effect-on-{}", if res.is_err() { "error" } else { "empty-write" }), "a rejected / empty write sent a modifying request".into()));
                        }
                    } else if res.is_ok() && !must_fail && ii != RAGGED {
                        // content check
                        let mut rd = img.rd.clone();
                        rd.write(off, len, 0x77);
                        if let Some(m) = sweep(&dev, &rd, bs as usize, false).first() {
                            out.push(mk("write:content".into(), m.what.clone()));
                        }
                    }
                }
                _ => {
                    if mode != "rw" {
                        if res.is_ok() && (modified || file_changed) {
                            out.push(mk("discard:read-only-modified".into(), "discard on a read-only device sent modifying requests and returned Ok".into()));
                        } else if res.is_ok() {
                            // Ok without any effect on a read-only device: the statement demands Err
                            let would_touch = {
                                let mut rd = img.rd.clone();
                                rd.discard(off, len as u64);
                                rd != img.rd
                            };
                            if would_touch || true {
                                out.push(mk("discard:read-only-accepted".into(), format!("returned {:?}", res)));
                            }
                        }
                    } else {
                        if res.is_err() {
                            out.push(mk("discard:rejected".into(), format!("returned {:?}", res)));
                        } else {
                            let mut rd = img.rd.clone();
                            rd.discard(off, len as u64);
                            if let Some(m) = sweep(&dev, &rd, bs as usize, false).first() {
                                out.push(mk("discard:content".into(), m.what.clone()));
                            }
                        }
                    }
                }
            }
            if res.is_err() {
                if modified || file_changed {
                    out.push(mk(format!("{}:side-effect-on-error", op), "an Err result came with a modifying backend request".into()));
                }
                // guest content and metadata unchanged
                if let Some(m) = if ii == RAGGED { None } else { sweep(&dev, &img.rd, bs as usize, false).first().cloned() } {
                    out.push(mk(format!("{}:content-changed-on-error", op), m.what.clone()));
                }
            }
            let _ = Kind::Sync;
            (out, format!("{}:{}:{}", op, mode, outcome))
        })
        .collect();
    let mut distinct = std::collections::BTreeSet::new();
    let mut n = 0u64;
    for (v, o) in results {
        n += 1;
        distinct.insert(o);
        run.add_all(v);
    }
    let cov = json!({
        "evaluations": n,
        "distinct_nontrivial": distinct.len(),
        "rule": "complete product of offsets {0,1,BS/2,BS-1,BS,V-BS,V-1,V,V+1,V+BS,2^32,2^63,2^64-BS,2^64-2,2^64-1} x lengths {0,1,BS-1,BS,BS+1,2BS,CS,CS+BS,3CS} (+ huge discard lengths) x cluster sizes {512, 4 KiB, 64 KiB} x block sizes 512..4096 (<= cluster) x {writable, read-only, backing-marked} x {read_at, write_at, discard}, one fresh device per call; distinct_nontrivial = distinct (operation, mode, result shape) outcomes observed",
        "samples": cases.iter().step_by(cases.len() / 6 + 1).map(|c| format!("bs={} {} {}(off={:#x},len={:#x})", 1u32 << c.1, c.2, c.3, c.4, c.5)).collect::<Vec<_>>(),
        "outcomes": distinct.iter().collect::<Vec<_>>(),
        "exhaustive": true,
    });
    run.finish(cov, vec!["harness build has overflow-checks and debug-assertions on, so an arithmetic overflow is a panic".into()])
}

// =====================================================================
// C15: codec fidelity
// =====================================================================
use qcow2_rs::dev::{Qcow2DevParams, Qcow2Info};
use qcow2_rs::meta::{L2Table, MappingSource, Qcow2Header, RefBlock, SplitGuestOffset, Table, TableEntry};

fn table_raw<T: Table>(t: &T) -> Vec<u8> {
    unsafe { std::slice::from_raw_parts(t.as_ptr(), t.byte_size()) }.to_vec()
}
fn table_fill<T: Table>(t: &mut T, bytes: &[u8]) {
    let n = t.byte_size();
    unsafe { std::slice::from_raw_parts_mut(t.as_mut_ptr(), n) }.copy_from_slice(&bytes[..n]);
}

fn info_for(cluster_bits: u32, order: u32, version: u32, backing: bool, params: &Qcow2DevParams) -> Result<Qcow2Info, String> {
    let mut s = ImageSpec::new(cluster_bits, order, 64 << cluster_bits);
    s.version = version;
    if backing {
        s.backing_name = Some("b".into());
    }
    let b = spec::build_image(&s);
    let h = Qcow2Header::from_buf(&b.bytes[..b.bytes.len().min(4096)]).map_err(|e| format!("{e:?}"))?;
    catch_unwind(AssertUnwindSafe(|| Qcow2Info::new(&h, params).map_err(|e| format!("{e:?}")))).map_err(panic_msg)?
}

struct Acc {
    evals: u64,
    distinct: std::collections::BTreeSet<String>,
    viol: Vec<Violation>,
    samples: Vec<String>,
}
impl Acc {
    fn v(&mut self, class: &str, detail: String) {
        if self.viol.iter().filter(|x| x.class == class).count() < 5 {
            self.viol.push(Violation { prop: "C15".into(), class: class.into(), detail: detail.clone(), replay: json!({"engine":"enum-c15","case":detail}) });
        }
    }
}

fn c15_refcounts(a: &mut Acc) {
    let dummy = info_for(16, 4, 3, false, &Qcow2DevParams::new(9, None, None, false, false)).unwrap();
    for order in 0u32..=6 {
        let max = spec::rc_max(order);
        let entries = 512 * 8 >> order;
        let vals: Vec<u64> = {
            let mut v = vec![0, 1, 2, max.saturating_sub(1), max];
            v.sort();
            v.dedup();
            v.retain(|x| *x <= max);
            v
        };
        // background patterns: all zero, all ones, alternating
        for bg in [0x00u8, 0xff, 0xa5, 0x01, 0x80] {
            for idx in 0..entries {
                for &nv in vals.iter() {
                    a.evals += 1;
                    let mut rb = RefBlock::new(order as u8, 512, None);
                    let mut model = vec![bg; 512];
                    table_fill(&mut rb, &model);
                    // decode agrees before
                    let before = rb.get(idx).into_plain();
                    if before != spec::rc_get(&model, order, idx) {
                        a.v(&format!("refcount:get:order{}", order), format!("order {} bg {:#x} idx {}: get {} expected {}", order, bg, idx, before, spec::rc_get(&model, order, idx)));
                    }
                    let r = catch_unwind(AssertUnwindSafe(|| rb.set(idx, <RefBlock as Table>::Entry::try_from_plain(nv, &dummy).unwrap())));
                    if r.is_err() {
                        a.v(&format!("refcount:set-panic:order{}", order), format!("order {} set({}, {}) panicked", order, idx, nv));
                        continue;
                    }
                    spec::rc_set(&mut model, order, idx, nv);
                    let raw = table_raw(&rb);
                    if raw != model {
                        let p = raw.iter().zip(model.iter()).position(|(x, y)| x != y).unwrap();
                        a.v(
                            &format!("refcount:packing:order{}", order),
                            format!("order {} bg {:#x} set({}, {}): byte {} is {:#010b}, the specification says {:#010b}", order, bg, idx, nv, p, raw[p], model[p]),
                        );
                    }
                    a.distinct.insert(format!("rc:o{}:{}", order, if nv == 0 { "0" } else if nv == max { "max" } else { "mid" }));
                }
            }
        }
        // exhaustive over byte states for sub-byte widths
        if order < 3 {
            let per = 8usize >> order;
            for b in 0u16..=255 {
                for pos in 0..per {
                    for nv in 0..=max {
                        a.evals += 1;
                        let mut rb = RefBlock::new(order as u8, 512, None);
                        let mut model = vec![b as u8; 512];
                        table_fill(&mut rb, &model);
                        let idx = 3 * per + pos;
                        if rb.get(idx).into_plain() != spec::rc_get(&model, order, idx) {
                            a.v(&format!("refcount:get:order{}", order), format!("order {} byte {:#x} pos {}: get {}", order, b, pos, rb.get(idx).into_plain()));
                        }
                        rb.set(idx, <RefBlock as Table>::Entry::try_from_plain(nv, &dummy).unwrap());
                        spec::rc_set(&mut model, order, idx, nv);
                        if table_raw(&rb) != model {
                            a.v(&format!("refcount:packing:order{}", order), format!("order {} byte state {:#x} pos {} value {}: wrong bytes", order, b, pos, nv));
                        }
                    }
                }
            }
        }
        // refusing values that do not fit
        let mut rb = RefBlock::new(order as u8, 512, None);
        let mut model = vec![0u8; 512];
        spec::rc_set(&mut model, order, 5, max);
        table_fill(&mut rb, &model);
        a.evals += 2;
        if order < 6 && rb.increment(5).is_ok() {
            a.v(&format!("refcount:overflow-accepted:order{}", order), format!("order {}: increment at max succeeded, value now {}", order, rb.get(5).into_plain()));
        }
        if table_raw(&rb) != model {
            a.v(&format!("refcount:overflow-side-effect:order{}", order), format!("order {}: refused increment changed bytes", order));
        }
        if rb.decrement(4).is_ok() {
            a.v(&format!("refcount:underflow-accepted:order{}", order), format!("order {}: decrement at 0 succeeded", order));
        }
        if order < 6 {
            let r = catch_unwind(AssertUnwindSafe(|| {
                let mut rb2 = RefBlock::new(order as u8, 512, None);
                rb2.set(0, <RefBlock as Table>::Entry::try_from_plain(max + 1, &dummy).unwrap());
                rb2.get(0).into_plain()
            }));
            if let Ok(v) = r {
                a.v(&format!("refcount:too-big-stored:order{}", order), format!("order {}: set(max+1) was stored as {}", order, v));
            }
        }
    }
    a.samples.push("refcounts: every order 0..6 x every index of a 512-byte slice x values {0,1,2,max-1,max} x 5 background byte patterns, raw bytes vs independent LSB-first / big-endian packer".into());
}

/// independent L2 entry decoder (qcow2 spec): (kind, host offset, compressed length bound, copied)
fn spec_decode_l2(e: u64, cb: u32, has_backing: bool) -> (&'static str, u64, usize, bool) {
    if e >> 62 & 1 == 1 {
        let x = 62 - (cb - 8);
        let off = e & ((1u64 << x) - 1);
        let nsec = (e >> x) & ((1u64 << (cb - 8)) - 1);
        let len = ((nsec + 1) * 512 - (off & 511)) as usize;
        ("compressed", off, len, false)
    } else {
        let off = e & 0x00ff_ffff_ffff_fe00;
        if e & 1 == 1 {
            ("zero", off, 0, off != 0 && e >> 63 == 1)
        } else if off == 0 {
            (if has_backing { "backing" } else { "unallocated" }, 0, 0, false)
        } else {
            ("data", off, 0, e >> 63 == 1)
        }
    }
}

fn c15_l2(a: &mut Acc) {
    let params = Qcow2DevParams::new(9, None, None, false, false);
    for cb in 9u32..=21 {
        for backing in [false, true] {
            let p2 = Qcow2DevParams::new(9, Some((9, 1024)), Some((9, 1024)), false, false);
            let info = match info_for(cb, 4, 3, backing, if cb >= 12 { &params } else { &p2 }) {
                Ok(i) => i,
                Err(e) => {
                    a.v("l2:info-unavailable", format!("cluster_bits {}: {}", cb, e));
                    continue;
                }
            };
            let cs = 1u64 << cb;
            let x = 62 - (cb - 8);
            let mut entries: Vec<u64> = vec![0];
            // standard clusters
            for off in [cs, 2 * cs, 1u64 << 32, (1u64 << 55), (1u64 << 56) - cs] {
                for flags in [0u64, 1 << 63, 1, (1 << 63) | 1] {
                    entries.push(off | flags);
                }
            }
            entries.push(1); // zero, no preallocation
            // compressed descriptors
            for off in [cs + 1, cs + 511, cs + 512, 3 * cs - 1, (1u64 << 40) + 77, (1u64 << x.min(56)) - 513] {
                for nsec in [0u64, 1, (1u64 << (cb - 8)) - 1] {
                    entries.push((1 << 62) | (nsec << x) | off);
                }
            }
            let guest = SplitGuestOffset(5 * cs);
            for e in entries {
                a.evals += 1;
                let mut t = L2Table::new(None, 512, cb as usize);
                let mut raw = vec![0u8; 512];
                raw[24..32].copy_from_slice(&e.to_be_bytes());
                table_fill(&mut t, &raw);
                let le = t.get(3);
                if le.into_plain() != e {
                    a.v("l2:table-get", format!("cluster_bits {}: raw big-endian {:#x} read back as {:#x}", cb, e, le.into_plain()));
                    continue;
                }
                let (kind, off, len, copied) = spec_decode_l2(e, cb, backing);
                let r = catch_unwind(AssertUnwindSafe(|| le.into_mapping(&info, &guest)));
                let m = match r {
                    Ok(m) => m,
                    Err(p) => {
                        a.v("l2:into_mapping-panic", format!("cluster_bits {} entry {:#x}: {}", cb, e, panic_msg(p)));
                        continue;
                    }
                };
                let lib_kind = match m.source {
                    MappingSource::DataFile => "data",
                    MappingSource::Backing => "backing",
                    MappingSource::Zero => "zero",
                    MappingSource::Compressed => "compressed",
                    MappingSource::Unallocated => "unallocated",
                };
                a.distinct.insert(format!("l2:{}:{}", kind, cb));
                if lib_kind != kind {
                    a.v(&format!("l2:kind:{}-as-{}", kind, lib_kind), format!("cluster_bits {} backing {} entry {:#x}: spec says {}, library says {}", cb, backing, e, kind, lib_kind));
                    continue;
                }
                match kind {
                    "data" => {
                        if m.cluster_offset != Some(off) || m.copied != copied {
                            a.v("l2:data-fields", format!("cluster_bits {} entry {:#x}: offset {:?} copied {} expected {:#x} {}", cb, e, m.cluster_offset, m.copied, off, copied));
                        }
                    }
                    "zero" => {
                        let want = if off == 0 { None } else { Some(off) };
                        if m.cluster_offset != want || m.copied != copied {
                            a.v("l2:zero-fields", format!("cluster_bits {} entry {:#x}: offset {:?} copied {}", cb, e, m.cluster_offset, m.copied));
                        }
                    }
                    "compressed" => {
                        if m.cluster_offset != Some(off) || m.compressed_length != Some(len) {
                            a.v(
                                "l2:compressed-fields",
                                format!("cluster_bits {} entry {:#x}: offset {:?} length {:?}, the specification says {:#x} {}", cb, e, m.cluster_offset, m.compressed_length, off, len),
                            );
                        }
                        // clusters covered
                        let s0 = off & !511;
                        let e0 = s0 + (((e >> x) & ((1u64 << (cb - 8)) - 1)) + 1) * 512;
                        let want = (s0 >> cb << cb, (((e0 - 1) >> cb) - (s0 >> cb) + 1) as usize);
                        if le.allocation(cb) != Some(want) {
                            a.v("l2:compressed-allocation", format!("cluster_bits {} entry {:#x}: allocation {:?} expected {:?}", cb, e, le.allocation(cb), want));
                        }
                    }
                    "backing" => {
                        if m.cluster_offset != Some(5 * cs) {
                            a.v("l2:backing-offset", format!("cluster_bits {}: backing mapping offset {:?} expected guest cluster offset {:#x}", cb, m.cluster_offset, 5 * cs));
                        }
                    }
                    _ => {}
                }
                // back to the same bits
                let r = catch_unwind(AssertUnwindSafe(|| qcow2_rs::meta::L2Entry::from_mapping(m.clone(), cb).into_plain()));
                match r {
                    Ok(bits) => {
                        if bits != e {
                            a.v(&format!("l2:roundtrip:{}", kind), format!("cluster_bits {} entry {:#x} -> mapping -> {:#x}", cb, e, bits));
                        }
                    }
                    Err(p) => a.v(&format!("l2:from_mapping-panic:{}", kind), format!("cluster_bits {} entry {:#x}: {}", cb, e, panic_msg(p))),
                }
                // validation accepts every permitted entry
                if <qcow2_rs::meta::L2Entry as TableEntry>::try_from_plain(e, &info).is_err() {
                    a.v("l2:permitted-entry-rejected", format!("cluster_bits {} entry {:#x} rejected by try_from_plain", cb, e));
                }
            }
            // reserved bits are reported
            for bit in (1..=8).chain(56..=61) {
                a.evals += 1;
                let e = cs | (1u64 << bit);
                if <qcow2_rs::meta::L2Entry as TableEntry>::try_from_plain(e, &info).is_ok() {
                    a.v("l2:reserved-bit-accepted", format!("cluster_bits {} standard entry with reserved bit {} accepted", cb, bit));
                }
            }
            a.evals += 1;
            if <qcow2_rs::meta::L2Entry as TableEntry>::try_from_plain(cs + 512, &info).is_ok() && cb > 9 {
                a.v("l2:unaligned-accepted", format!("cluster_bits {}: unaligned standard entry accepted", cb));
            }
        }
    }
    a.samples.push("L2 entries: cluster_bits 9..21 x backing yes/no x {unallocated, data/zero at offsets CS,2CS,2^32,2^55,2^56-CS with flags 63/0, compressed at 6 byte offsets x {0,1,max} extra sectors}: kind, offset, length, COPIED, clusters covered, entry -> mapping -> entry".into());
}

fn c15_addr(a: &mut Acc) {
    for cb in 9u32..=21 {
        for order in 0u32..=6 {
            for bs in [9u8, 12] {
                if (bs as u32) > cb {
                    continue;
                }
                let mut slice_opts: Vec<u8> = vec![bs, cb.min(12) as u8, cb as u8];
                slice_opts.sort();
                slice_opts.dedup();
                for sb in slice_opts {
                    if sb < bs || sb as u32 > cb {
                        continue;
                    }
                    let params = Qcow2DevParams::new(bs, Some((sb, 2usize << sb)), Some((sb, 2usize << sb)), false, false);
                    let info = match info_for(cb, order, 3, false, &params) {
                        Ok(i) => i,
                        Err(e) => {
                            a.v("addr:info-unavailable", format!("cluster_bits {} order {} slice {}: {}", cb, order, sb, e));
                            continue;
                        }
                    };
                    let g = info.verif_geometry();
                    let cs = 1u64 << cb;
                    let l2e = cs / 8;
                    let rbe = cs * 8 >> order;
                    let l2_slice_entries = (1u64 << sb) / 8;
                    let rb_slice_entries = (8u64 << sb) >> order;
                    if g.l2_slice_entries as u64 != l2_slice_entries || g.rb_slice_entries as u64 != rb_slice_entries || info.rb_entries() as u64 != rbe || info.l2_entries() as u64 != l2e {
                        a.v("addr:geometry", format!("cluster_bits {} order {} slice {}: library geometry {:?}", cb, order, sb, g));
                    }
                    a.distinct.insert(format!("addr:{}:{}:{}", cb, order, sb));
                    // offsets around every kind of boundary
                    let mut offs: Vec<u64> = vec![];
                    for j in 9..56u32 {
                        for k in [1u64, 3] {
                            let base = k << j;
                            for d in [0i64, -1, 1, -(1i64 << bs), 1i64 << bs] {
                                let o = base as i64 + d;
                                if o >= 0 && (o as u64) < (1u64 << 56) {
                                    offs.push(o as u64);
                                }
                            }
                        }
                    }
                    for o in offs {
                        a.evals += 1;
                        let s = SplitGuestOffset(o);
                        let cl = o >> cb;
                        let (l1, l2, inc) = (s.l1_index(&info) as u64, s.l2_index(&info) as u64, s.in_cluster_offset(&info) as u64);
                        if l1 != cl / l2e || l2 != cl % l2e || inc != o % cs || ((l1 * l2e + l2) << cb) + inc != o {
                            a.v("addr:guest-split", format!("cb {} offset {:#x}: l1 {} l2 {} in-cluster {}", cb, o, l1, l2, inc));
                        }
                        if s.cluster_offset(&info) != cl << cb {
                            a.v("addr:cluster-offset", format!("cb {} offset {:#x}: cluster_offset {:#x}", cb, o, s.cluster_offset(&info)));
                        }
                        let key = s.l2_slice_key(&info) as u64;
                        let sidx = s.l2_slice_index(&info) as u64;
                        let soff = s.l2_slice_off_in_table(&info) as u64;
                        if key != cl / l2_slice_entries || sidx != cl % l2_slice_entries || soff != (l2 / l2_slice_entries) * (1 << sb) || soff + sidx * 8 != l2 * 8 {
                            a.v("addr:guest-slice", format!("cb {} slice {} offset {:#x}: key {} idx {} off {}", cb, sb, o, key, sidx, soff));
                        }
                        // host side
                        let ho = o & !(cs - 1);
                        let h = info.verif_host_split(ho);
                        let hc = ho >> cb;
                        if h.rt_index as u64 != hc / rbe || h.rb_index as u64 != hc % rbe || ((h.rt_index as u64 * rbe + h.rb_index as u64) << cb) != ho {
                            a.v("addr:host-split", format!("cb {} order {} offset {:#x}: {:?}", cb, order, ho, h));
                        }
                        if h.rb_slice_key as u64 != hc / rb_slice_entries
                            || h.rb_slice_index as u64 != hc % rb_slice_entries
                            || h.rb_slice_off_in_table as u64 != (h.rb_index as u64 / rb_slice_entries) * (1 << sb)
                            || h.rb_slice_host_start != (hc / rb_slice_entries * rb_slice_entries) << cb
                            || h.rb_slice_host_end != ((hc / rb_slice_entries + 1) * rb_slice_entries) << cb
                            || h.rb_host_start != (hc / rbe * rbe) << cb
                            || h.rb_host_end != ((hc / rbe + 1) * rbe) << cb
                        {
                            a.v("addr:host-slice", format!("cb {} order {} slice {} offset {:#x}: {:?}", cb, order, sb, ho, h));
                        }
                        if info.verif_cluster_off_from_slice(ho, h.rb_slice_index) != ho {
                            a.v("addr:cluster-off-from-slice", format!("cb {} order {} offset {:#x}", cb, order, ho));
                        }
                    }
                }
            }
        }
    }
    a.samples.push("address split: cluster_bits 9..21 x refcount_order 0..6 x slice sizes {bs, min(12,c), c} x offsets {1,3}*2^j +- {0,1,BS} for j in 9..56: guest (l1,l2,in-cluster) and host (rt,rb) indices recompose to the offset; slice key/index/offset agree with the un-sliced indices".into());
}

fn c15_headers(a: &mut Acc) {
    for (version, hlen) in [(2u32, 0u32), (3, 0), (3, 104), (3, 120), (3, 136)] {
        for cb in [9u32, 12, 16, 21] {
            for ext in [false, true] {
                // 392: with 512-byte clusters, a 112-byte header and no extensions the name ends
                // exactly with the first cluster
                for name_len in [0usize, 1, 7, 8, 200, 392, 1023] {
                    if cb == 9 && name_len > 200 && !(name_len == 392 && !ext && (hlen == 0 && version == 3)) {
                        continue;
                    }
                    if cb != 9 && name_len == 392 {
                        continue;
                    }
                    a.evals += 1;
                    let mut s = ImageSpec::new(cb, if version == 2 { 4 } else { 3 }, 16 << cb);
                    s.version = version;
                    s.header_length = hlen;
                    s.extensions = ext;
                    if name_len > 0 {
                        s.backing_name = Some("n".repeat(name_len));
                    }
                    let b = spec::build_image(&s);
                    let buf = &b.bytes[..b.bytes.len().min(65536).max(512)];
                    let case = format!("v{} header_length {} cluster_bits {} ext {} name_len {}", version, if hlen == 0 { if version == 2 { 72 } else { 112 } } else { hlen }, cb, ext, name_len);
                    let r = catch_unwind(AssertUnwindSafe(|| Qcow2Header::from_buf(buf).map_err(|e| format!("{e:?}"))));
                    let mut h = match r {
                        Ok(Ok(h)) => h,
                        Ok(Err(e)) => {
                            a.v(&format!("header:valid-rejected:v{}", version), format!("{}: {}", case, e));
                            continue;
                        }
                        Err(p) => {
                            a.v(&format!("header:parse-panic:v{}", version), format!("{}: {}", case, panic_msg(p)));
                            continue;
                        }
                    };
                    a.distinct.insert(format!("hdr:v{}:{}:{}", version, ext, name_len.min(2)));
                    let sh = spec::parse_header(buf).unwrap();
                    let fields_ok = h.version() == sh.version
                        && h.cluster_bits() == sh.cluster_bits
                        && h.size() == sh.size
                        && h.l1_table_entries() as u32 == sh.l1_size
                        && h.l1_table_offset() == sh.l1_off
                        && h.reftable_offset() == sh.rt_off
                        && h.reftable_clusters() as u32 == sh.rt_clusters
                        && h.refcount_order() == sh.refcount_order
                        && h.nb_snapshots() == sh.nb_snapshots;
                    if !fields_ok {
                        a.v(&format!("header:fields:v{}", version), format!("{}: parsed fields differ from the specification's layout", case));
                    }
                    let want_name = s.backing_name.clone();
                    if h.backing_filename().cloned() != want_name {
                        a.v("header:backing-name", format!("{}: backing name {:?}", case, h.backing_filename().map(|x| x.len())));
                    }
                    if ext && name_len > 0 && h.backing_format().map(|x| x.as_str()) != Some("qcow2") {
                        a.v("header:backing-format", format!("{}: backing format {:?}", case, h.backing_format()));
                    }
                    if ext && h.feature_name(qcow2_rs::meta::Qcow2FeatureType::Incompatible, 0).map(|x| x.as_str()) != Some("dirty bit") {
                        a.v("header:feature-name", format!("{}: feature name {:?}", case, h.feature_name(qcow2_rs::meta::Qcow2FeatureType::Incompatible, 0)));
                    }
                    // re-serialise, parse again, compare
                    let ser = match h.serialize_to_buf() {
                        Ok(v) => v,
                        Err(e) => {
                            a.v("header:serialize-failed", format!("{}: {e:?}", case));
                            continue;
                        }
                    };
                    let mut padded = ser.clone();
                    padded.resize(ser.len().max(4096), 0);
                    match catch_unwind(AssertUnwindSafe(|| Qcow2Header::from_buf(&padded).map_err(|e| format!("{e:?}")))) {
                        Ok(Ok(mut h2)) => {
                            let same = h2.version() == h.version()
                                && h2.cluster_bits() == h.cluster_bits()
                                && h2.size() == h.size()
                                && h2.l1_table_entries() == h.l1_table_entries()
                                && h2.l1_table_offset() == h.l1_table_offset()
                                && h2.reftable_offset() == h.reftable_offset()
                                && h2.reftable_clusters() == h.reftable_clusters()
                                && h2.refcount_order() == h.refcount_order()
                                && h2.backing_filename() == h.backing_filename()
                                && h2.backing_format() == h.backing_format()
                                && h2.feature_name(qcow2_rs::meta::Qcow2FeatureType::Incompatible, 0) == h.feature_name(qcow2_rs::meta::Qcow2FeatureType::Incompatible, 0);
                            if !same {
                                a.v(&format!("header:roundtrip-fields:v{}", version), format!("{}: fields differ after serialize + parse", case));
                            }
                            // the source image uses deflate (compression type 0 or no such field): the written
                            // header must say so too, whatever byte followed a 104-byte header
                            if version == 3 && ser.len() > 104 && ser[104] != 0 {
                                a.v("header:roundtrip-compression-type", format!("{}: re-serialised header has compression type {:#x}", case, ser[104]));
                            }
                            if ext {
                                // unknown extension 0x12345678 "hello" must survive
                                let needle = [0x12u8, 0x34, 0x56, 0x78, 0, 0, 0, 5, b'h', b'e', b'l', b'l', b'o'];
                                if !ser.windows(needle.len()).any(|w| w == needle) {
                                    a.v("header:unknown-extension-dropped", format!("{}: unknown extension missing after re-serialisation", case));
                                }
                            }
                            match h2.serialize_to_buf() {
                                Ok(ser2) => {
                                    if ser2 != ser {
                                        a.v(&format!("header:second-serialisation-differs:v{}", version), format!("{}: {} vs {} bytes", case, ser.len(), ser2.len()));
                                    }
                                }
                                Err(e) => a.v("header:serialize-failed", format!("{}: second: {e:?}", case)),
                            }
                            // a version 2 header must stay readable by the specification's rules
                            if let Ok(sh2) = spec::parse_header(&padded) {
                                if sh2.version == 2 && version == 2 {
                                    // v2: extensions start at byte 72
                                    let e0 = u32::from_be_bytes(padded[72..76].try_into().unwrap());
                                    let known = [0u32, 0xe2792aca, 0x6803f857, 0x12345678];
                                    if !known.contains(&e0) {
                                        a.v("header:v2-reserialised-as-v3-layout", format!("{}: after re-serialisation byte 72 holds {:#x}, not a header extension (a version 2 header is 72 bytes long)", case, e0));
                                    }
                                }
                            }
                        }
                        Ok(Err(e)) => a.v(&format!("header:roundtrip-rejected:v{}", version), format!("{}: {}", case, e)),
                        Err(p) => a.v("header:roundtrip-panic", format!("{}: {}", case, panic_msg(p))),
                    }
                }
            }
        }
    }
    a.samples.push("headers: v2/v3 x cluster_bits {9,12,16,21} x extension sets {none, backing format + feature table + unknown type of length 5} x backing name lengths {0,1,7,8,200,1023}: fields vs independent parser, parse . serialize . parse identity, byte-identical second serialisation".into());
}

pub fn c15() -> i32 {
    let run = Run::new("C15", "exploration");
    let mut a = Acc { evals: 0, distinct: Default::default(), viol: vec![], samples: vec![] };
    c15_refcounts(&mut a);
    c15_l2(&mut a);
    c15_addr(&mut a);
    c15_headers(&mut a);
    run.add_all(a.viol);
    let cov = json!({
        "evaluations": a.evals,
        "distinct_nontrivial": a.distinct.len(),
        "rule": "complete enumeration of the finite / boundary domains listed in samples against an independent decoder and packer written from the qcow2 specification; distinct_nontrivial = distinct (codec, geometry, value class) combinations exercised",
        "samples": a.samples,
        "exhaustive": true,
    });
    run.finish(cov, vec!["SpecKit packer/decoder are the reference (they are also what builds every foreign image the other checks read successfully)".into()])
}
