//! C20 — the rqcow2 CLI: convert round trips, format validity, check's verdict.
use crate::report::{Run, Violation};
use crate::simio::Sim;
use crate::spec::{self, check_image, GKind, ImageSpec};
use crate::world::*;
use serde_json::json;
use std::path::{Path, PathBuf};
use std::process::Command;
use std::time::{Duration, Instant};

fn build_cli() -> Result<PathBuf, String> {
    let out = Command::new("cargo")
        .args(["build", "--release", "--offline", "--bin", "rqcow2", "--manifest-path", "/repo/Cargo.toml"])
        .env("CARGO_TARGET_DIR", "/verif/target/rqcow2")
        .env("CARGO_NET_OFFLINE", "true")
        .output()
        .map_err(|e| format!("cannot run cargo: {e}"))?;
    if !out.status.success() {
        return Err(format!("building rqcow2 failed: {}", String::from_utf8_lossy(&out.stderr).chars().rev().take(600).collect::<String>().chars().rev().collect::<String>()));
    }
    Ok(PathBuf::from("/verif/target/rqcow2/release/rqcow2"))
}

/// run a command with a timeout; returns (exit code or None on timeout/signal, stderr tail)
fn run_timeout(cmd: &mut Command, secs: u64) -> (Option<i32>, String, bool) {
    let mut child = match cmd.stdout(std::process::Stdio::null()).stderr(std::process::Stdio::piped()).spawn() {
        Ok(c) => c,
        Err(e) => return (None, format!("spawn failed: {e}"), false),
    };
    let start = Instant::now();
    loop {
        match child.try_wait() {
            Ok(Some(st)) => {
                let mut err = String::new();
                if let Some(mut e) = child.stderr.take() {
                    use std::io::Read;
                    let _ = e.read_to_string(&mut err);
                }
                let tail: String = err.lines().filter(|l| l.contains("panicked") || l.contains("rror")).take(2).collect::<Vec<_>>().join(" | ");
                return (st.code(), tail, false);
            }
            Ok(None) => {
                if start.elapsed() > Duration::from_secs(secs) {
                    let _ = child.kill();
                    let _ = child.wait();
                    return (None, "timeout".into(), true);
                }
                std::thread::sleep(Duration::from_millis(5));
            }
            Err(e) => return (None, format!("{e}"), false),
        }
    }
}

fn raw_content(size: usize, kind: &str) -> Vec<u8> {
    let mut v = vec![0u8; size];
    match kind {
        "zeros" => {}
        "pattern" => {
            for (i, b) in v.iter_mut().enumerate() {
                *b = ((i / 512) as u8).wrapping_mul(31).wrapping_add((i % 251) as u8) | 1;
            }
        }
        _ => {
            // sparse: data in a few 4 KiB islands
            for k in 0..8usize {
                let off = (size / 8) * k;
                for i in off..(off + 4096).min(size) {
                    v[i] = 0xc0 + k as u8;
                }
            }
        }
    }
    v
}

fn leak_positions(img: &[u8]) -> Vec<u64> {
    let rep = check_image(img);
    if !rep.strict_ok() {
        return vec![];
    }
    let h = &rep.header;
    let (_, _, rbe) = spec::geometry(h.cluster_bits, h.refcount_order);
    let cs = 1u64 << h.cluster_bits;
    let file_clusters = (img.len() as u64 + cs - 1) / cs;
    // clusters covered by an existing refblock
    let mut out = vec![];
    let limit = file_clusters + 6;
    for c in 0..limit {
        if rep.refs.contains_key(&c) {
            continue;
        }
        // covered?
        let ri = (c as usize) / rbe;
        let eoff = h.rt_off as usize + ri * 8;
        if eoff + 8 > img.len() {
            continue;
        }
        let e = u64::from_be_bytes(img[eoff..eoff + 8].try_into().unwrap());
        if e == 0 {
            continue;
        }
        out.push(c);
    }
    out
}

fn inject_leak(img: &[u8], c: u64) -> Vec<u8> {
    let h = spec::parse_header(img).unwrap();
    let (cs, _, rbe) = spec::geometry(h.cluster_bits, h.refcount_order);
    let ri = (c as usize) / rbe;
    let eoff = h.rt_off as usize + ri * 8;
    let rb = (u64::from_be_bytes(img[eoff..eoff + 8].try_into().unwrap()) & !0x1ff) as usize;
    let mut out = img.to_vec();
    if out.len() < rb + cs {
        out.resize(rb + cs, 0);
    }
    spec::rc_set(&mut out[rb..rb + cs], h.refcount_order, (c as usize) % rbe, 1);
    out
}

/// consistent images: builder images of several shapes and flushed states of real histories
fn consistent_images() -> Vec<(String, Vec<u8>)> {
    let mut out = vec![];
    for (cb, order) in [(16u32, 4u32), (12, 4), (12, 5), (9, 6), (9, 3), (10, 2)] {
        let mut s = ImageSpec::new(cb, order, 40 << cb);
        s.kinds = vec![GKind::Unalloc; 40];
        for c in [0usize, 1, 2, 7, 8] {
            s.kinds[c] = GKind::Data;
        }
        s.kinds[3] = GKind::Zero;
        s.kinds[4] = GKind::ZeroPrealloc;
        s.kinds[5] = GKind::Compressed;
        s.kinds[6] = GKind::Compressed;
        out.push((format!("built-c{}-r{}", cb, order), spec::build_image(&s).bytes));
        // with holes: some host clusters left free in the middle
        let mut s2 = s.clone();
        s2.skip_host = vec![6, 9];
        s2.gap = 0;
        out.push((format!("built-holes-c{}-r{}", cb, order), spec::build_image(&s2).bytes));
    }
    // short L1 tables (the header's l1_size covers less than the virtual size needs) with free
    // clusters right behind the table
    for (cb, order) in [(9u32, 6u32), (9, 4), (12, 4)] {
        let l2e = 1usize << (cb - 3);
        let mut s = ImageSpec::new(cb, order, (130 * l2e as u64) << cb);
        s.kinds = vec![GKind::Unalloc; 130 * l2e];
        s.kinds[0] = GKind::Data;
        s.kinds[1] = GKind::Data;
        s.short_l1 = true;
        // header 0, reftable 1, refblock 2, L1 3: leave 4 and 5 free
        s.skip_host = vec![4, 5];
        out.push((format!("built-short-l1-c{}-r{}", cb, order), spec::build_image(&s).bytes));
    }
    // a refcount table with a hole: entry 1 is empty (nothing in clusters 64..127), entry 2 is used
    {
        let (cb, order) = (9u32, 6u32);
        let mut s = ImageSpec::new(cb, order, 64 << cb);
        s.kinds = vec![GKind::Unalloc; 64];
        for c in 0..12 {
            s.kinds[c] = GKind::Data;
        }
        // everything after the first few clusters goes behind cluster 128
        s.skip_host = (12..129).collect();
        s.min_file_clusters = 140;
        let mut img = spec::build_image(&s).bytes;
        let h = spec::parse_header(&img).unwrap();
        let e1 = h.rt_off as usize + 8;
        let rb1 = (u64::from_be_bytes(img[e1..e1 + 8].try_into().unwrap()) & !0x1ff) as usize;
        if rb1 != 0 {
            // drop refcount block 1 (it counts nothing) and release its cluster
            img[e1..e1 + 8].copy_from_slice(&[0u8; 8]);
            let c = rb1 >> cb;
            let (cs, _, rbe) = spec::geometry(cb, order);
            let ri = c / rbe;
            let eo = h.rt_off as usize + ri * 8;
            let rb = (u64::from_be_bytes(img[eo..eo + 8].try_into().unwrap()) & !0x1ff) as usize;
            spec::rc_set(&mut img[rb..rb + cs], order, c % rbe, 0);
            for b in img[rb1..rb1 + cs].iter_mut() {
                *b = 0;
            }
            if check_image(&img).strict_ok() {
                out.push(("built-reftable-hole-c9-r6".to_string(), img));
            }
        }
    }
    // flushed states of histories run on the real code (holes from discards)
    for g in [crate::images::G10, crate::images::G9, crate::images::G12] {
        let img = crate::images::lib_formatted(g.cluster_bits, g.order, g.vsize());
        let a = crate::images::alphabet(&g, false);
        let discards: Vec<Op> = a.iter().filter(|o| matches!(o, Op::Discard { .. })).cloned().collect();
        let writes: Vec<Op> = a.iter().filter(|o| matches!(o, Op::Write { .. })).cloned().collect();
        for (hi, hist) in [
            vec![writes[0].clone(), writes[1].clone(), Op::Flush],
            vec![writes[5 % writes.len()].clone(), writes[2].clone(), discards[0].clone(), Op::Flush],
            vec![writes[5 % writes.len()].clone(), writes[4 % writes.len()].clone(), discards[1].clone(), writes[0].clone(), Op::Flush],
            writes.iter().cloned().chain([discards[0].clone(), Op::Flush]).collect::<Vec<_>>(),
        ]
        .iter()
        .enumerate()
        {
            if let Ok(mut w) = World::new(img.files.clone(), img.rd.clone(), &g.cfg_small(), &g.cfg_small()) {
                let ok = hist.iter().all(|op| w.step(op).ok);
                if ok {
                    let f = w.sim.borrow().files[0].clone();
                    if check_image(&f).strict_ok() {
                        out.push((format!("history-{}-{}", g.name, hi), f));
                    }
                }
            }
        }
    }
    out
}

fn api_check(img: &[u8]) -> Result<bool, String> {
    let sim = Sim::new(vec![img.to_vec()]);
    let cfg = DevCfg { bs_bits: 9, l2: None, rb: None };
    let dev = open_chain(&sim, 0, &cfg, false)?;
    match std::panic::catch_unwind(std::panic::AssertUnwindSafe(|| block_on(dev.check()))) {
        Ok(Ok(())) => Ok(true),
        Ok(Err(_)) => Ok(false),
        Err(p) => Err(format!("check() panicked: {}", panic_msg(p))),
    }
}

pub fn c20() -> i32 {
    let run = Run::new("C20", "exploration");
    let thorough = run.thorough();
    let cli = match build_cli() {
        Ok(p) => p,
        Err(e) => {
            eprintln!("machinery error: {}", e);
            return 2;
        }
    };
    let dir = PathBuf::from(format!("/verif/target/c20-{}", std::process::id()));
    let _ = std::fs::create_dir_all(&dir);
    let mut evals = 0u64;
    let mut distinct = std::collections::BTreeSet::new();
    let mut samples: Vec<String> = vec![];
    let mk = |class: String, detail: String, case: String| Violation { prop: "C20".into(), class, detail: format!("{} [{}]", detail, case), replay: json!({"engine":"enum-c20","case":case}) };

    // ---- convert round trips ----
    let mut sizes: Vec<usize> = vec![0, 1, 511, 512, 513, 4095, 4096, 65535, 65536, 65537, 131072 + 512, 8 << 20, (8 << 20) + 512, (8 << 20) + 1000];
    if thorough {
        sizes.extend([(16 << 20) + 65536, 1000, 70000, (1 << 20) + 1, (16 << 20) + 1, (24 << 20) + 513]);
    }
    let cs = 65536usize;
    let jobs: Vec<(usize, &str)> = sizes.iter().flat_map(|s| ["zeros", "pattern", "sparse"].into_iter().map(move |k| (*s, k))).collect();
    let results: Vec<(String, Option<Violation>)> = {
        use rayon::prelude::*;
        jobs.par_iter()
            .map(|&(size, kind)| {
                let case = format!("convert raw({} bytes, {}) -> qcow2 -> raw", size, kind);
                let raw = dir.join(format!("in-{}-{}.raw", size, kind));
                let q = dir.join(format!("x-{}-{}.qcow2", size, kind));
                let back = dir.join(format!("out-{}-{}.raw", size, kind));
                let data = raw_content(size, kind);
                std::fs::write(&raw, &data).unwrap();
                let (c1, e1, t1) = run_timeout(Command::new(&cli).args(["convert", "-f", "raw", "-O", "qcow2", "-o"]).arg(&q).arg(&raw), 60);
                let cleanup = || {
                    for p in [&raw, &q, &back] {
                        let _ = std::fs::remove_file(p);
                    }
                };
                if t1 {
                    cleanup();
                    return (case.clone(), Some(mk("convert:to-qcow2:timeout".into(), "did not terminate within 60 s".into(), case)));
                }
                if c1 != Some(0) {
                    cleanup();
                    return (case.clone(), Some(mk(format!("convert:to-qcow2:failed:{}", crate::seq::err_category(&e1)), format!("exit {:?}: {}", c1, e1), case)));
                }
                // the produced image must be valid
                if let Ok(img) = std::fs::read(&q) {
                    if let Some((c, d)) = check_image(&img).first_problem(true) {
                        cleanup();
                        return (case.clone(), Some(mk(format!("convert:image-invalid:{}", c), d, case)));
                    }
                }
                let (c2, e2, t2) = run_timeout(Command::new(&cli).args(["convert", "-f", "qcow2", "-O", "raw", "-o"]).arg(&back).arg(&q), 60);
                if t2 {
                    cleanup();
                    return (case.clone(), Some(mk("convert:to-raw:timeout".into(), "did not terminate within 60 s".into(), case)));
                }
                if c2 != Some(0) {
                    cleanup();
                    return (case.clone(), Some(mk(format!("convert:to-raw:failed:{}", crate::seq::err_category(&e2)), format!("exit {:?}: {}", c2, e2), case)));
                }
                let got = std::fs::read(&back).unwrap_or_default();
                let mut want = data.clone();
                want.resize((size + cs - 1) / cs * cs, 0);
                cleanup();
                if got != want {
                    let p = got.iter().zip(want.iter()).position(|(a, b)| a != b);
                    return (case.clone(), Some(mk(
                        format!("convert:round-trip-differs:{}", if got.len() != want.len() { "length" } else { "content" }),
                        format!("output has {} bytes, expected {} (input zero-padded to the cluster size); first differing byte {:?}", got.len(), want.len(), p),
                        case,
                    )));
                }
                (case, None)
            })
            .collect()
    };
    for (case, v) in results {
        evals += 1;
        distinct.insert(format!("convert:{}", v.is_some()));
        if samples.len() < 3 {
            samples.push(case);
        }
        if let Some(v) = v {
            run.add(v);
        }
    }

    // ---- format ----
    let cbs: Vec<u32> = if thorough { (9..=21).collect() } else { vec![9, 12, 16, 21] };
    let mut refused = 0;
    for cb in cbs {
        for order in 0..=6u32 {
            for size_mb in [1u32, 64, 65536] {
                evals += 1;
                let case = format!("rqcow2 format --size {} -c {} -r {}", size_mb, cb, order);
                let f = dir.join(format!("fmt-{}-{}-{}.qcow2", cb, order, size_mb));
                let (c, e, t) = run_timeout(Command::new(&cli).args(["format", "--size", &size_mb.to_string(), "-c", &cb.to_string(), "-r", &order.to_string()]).arg(&f), 60);
                if t {
                    run.add(mk("format:timeout".into(), "did not terminate".into(), case));
                    continue;
                }
                if c != Some(0) {
                    // the formatter may decline a geometry (Err), but must not crash otherwise
                    if e.contains("increasing the cluster size") || e.contains("too big") || e.contains("too small") {
                        refused += 1;
                    } else {
                        run.add(mk(format!("format:failed:{}", crate::seq::err_category(&e)), format!("exit {:?}: {}", c, e), case));
                    }
                    let _ = std::fs::remove_file(&f);
                    continue;
                }
                let img = std::fs::read(&f).unwrap_or_default();
                let _ = std::fs::remove_file(&f);
                let rep = check_image(&img);
                distinct.insert(format!("format:{}:{}", cb, order));
                if let Some((cl, d)) = rep.first_problem(true) {
                    run.add(mk(format!("format:image-invalid:{}", cl), d, case));
                } else if rep.header.size != (size_mb as u64) << 20 || rep.header.cluster_bits != cb || rep.header.refcount_order != order {
                    run.add(mk("format:wrong-header".into(), format!("{:?}", rep.header), case));
                }
            }
        }
    }
    samples.push("rqcow2 format --size 64 -c 16 -r 4 -> independent checker (strict)".into());

    // ---- check's verdict ----
    let images = consistent_images();
    let mut leak_images = 0u64;
    for (name, img) in images.iter() {
        evals += 1;
        let case = format!("check on consistent image {}", name);
        match api_check(img) {
            Ok(true) => {}
            Ok(false) => run.add(mk("check:api-rejects-consistent-image".into(), "Qcow2Dev::check() failed on an image the independent checker accepts".into(), case.clone())),
            Err(e) => run.add(mk(format!("check:api-error:{}", crate::seq::err_category(&e)), e, case.clone())),
        }
        let p = dir.join(format!("chk-{}.qcow2", name));
        std::fs::write(&p, img).unwrap();
        let (c, e, t) = run_timeout(Command::new(&cli).arg("check").arg(&p), 60);
        if t || c != Some(0) {
            run.add(mk("check:cli-rejects-consistent-image".into(), format!("rqcow2 check exit {:?} {}", c, e), case.clone()));
        }
        distinct.insert(format!("check-ok:{}", name));
        let positions = leak_positions(img);
        for (k, c) in positions.iter().enumerate() {
            evals += 1;
            leak_images += 1;
            let leaked = inject_leak(img, *c);
            let lcase = format!("image {} with host cluster {} leaked (refcount 1, no reference)", name, c);
            // oracle self-check
            let rep = check_image(&leaked);
            if !rep.leaked.iter().any(|l| l.0 == *c) {
                continue;
            }
            match api_check(&leaked) {
                Ok(false) => {}
                Ok(true) => run.add(mk("check:api-accepts-leak".into(), "Qcow2Dev::check() accepted an image with a leaked cluster".into(), lcase.clone())),
                Err(e) => run.add(mk(format!("check:api-error-on-leak:{}", crate::seq::err_category(&e)), e, lcase.clone())),
            }
            // the CLI on the first, a middle and the last position
            if k == 0 || k == positions.len() - 1 || k == positions.len() / 2 {
                std::fs::write(&p, &leaked).unwrap();
                let (c2, _e, t2) = run_timeout(Command::new(&cli).arg("check").arg(&p), 60);
                if !t2 && c2 == Some(0) {
                    run.add(mk("check:cli-accepts-leak".into(), "rqcow2 check exited 0 on an image with a leaked cluster".into(), lcase.clone()));
                }
            }
        }
        let _ = std::fs::remove_file(&p);
        if samples.len() < 6 {
            samples.push(format!("{}: accepted when consistent; rejected with each of {} free clusters leaked", name, positions.len()));
        }
    }
    // ---- every assignment of cluster kinds to four neighbouring guest clusters x layouts (API) ----
    // (compressed streams share host clusters; with refcount structures last the shared cluster
    // lies between other used clusters)
    let kinds_all = [GKind::Data, GKind::Compressed, GKind::Zero, GKind::ZeroPrealloc, GKind::Unalloc];
    let mut enumerated = 0u64;
    for (cb, order) in [(9u32, 6u32), (12, 4)] {
        for refcount_last in [false, true] {
            for holes in [false, true] {
                for code in 0..kinds_all.len().pow(4) {
                    let mut s = ImageSpec::new(cb, order, 8 << cb);
                    s.kinds = vec![GKind::Unalloc; 8];
                    let mut c = code;
                    for g in 0..4 {
                        s.kinds[g] = kinds_all[c % kinds_all.len()].clone();
                        c /= kinds_all.len();
                    }
                    s.refcount_last = refcount_last;
                    if holes {
                        s.skip_host = vec![4, 6];
                    }
                    let img = spec::build_image(&s).bytes;
                    if !check_image(&img).strict_ok() {
                        continue; // builder self-check (never the case so far)
                    }
                    enumerated += 1;
                    evals += 1;
                    let case = format!("check on built image c{} r{} kinds {:?} refcount_last {} holes {}", cb, order, &s.kinds[..4], refcount_last, holes);
                    match api_check(&img) {
                        Ok(true) => {}
                        Ok(false) => run.add(mk("check:api-rejects-consistent-image".into(), "Qcow2Dev::check() failed on an image the independent checker accepts".into(), case.clone())),
                        Err(e) => run.add(mk(format!("check:api-error:{}", crate::seq::err_category(&e)), e, case.clone())),
                    }
                    for lc in leak_positions(&img) {
                        let leaked = inject_leak(&img, lc);
                        if !check_image(&leaked).leaked.iter().any(|l| l.0 == lc) {
                            continue;
                        }
                        evals += 1;
                        leak_images += 1;
                        match api_check(&leaked) {
                            Ok(false) => {}
                            Ok(true) => run.add(mk("check:api-accepts-leak".into(), "Qcow2Dev::check() accepted an image with a leaked cluster".into(), format!("{} with host cluster {} leaked", case, lc))),
                            Err(e) => run.add(mk(format!("check:api-error-on-leak:{}", crate::seq::err_category(&e)), e, format!("{} with host cluster {} leaked", case, lc))),
                        }
                    }
                }
            }
        }
    }
    samples.push(format!("{} images: every assignment of {{data, compressed, zero, zero+prealloc, unallocated}} to 4 guest clusters x refcount structures first/last x holes x 2 geometries, each also with every free cluster leaked (API)", enumerated));
    let _ = std::fs::remove_dir_all(&dir);
    let cov = json!({
        "evaluations": evals,
        "distinct_nontrivial": distinct.len(),
        "rule": "convert: raw sizes {0,1,511,512,513,4095,4096,65535,65536,65537,128K+512,8M,8M+512,8M+1000 (several 8 MiB chunks, last block partial),...} x contents {zeros, pattern, sparse} through rqcow2 convert raw->qcow2->raw (60 s timeout per step), output compared with the zero-padded input, intermediate image checked; format: sizes {1,64,65536} MB x cluster_bits x refcount_order through rqcow2 format -> independent checker; check: every consistent image (builder shapes with and without holes, flushed states of real histories) must pass Qcow2Dev::check() and rqcow2 check, and each copy with one free host cluster's refcount raised to 1 must be rejected (API: every position; CLI: first/middle/last)",
        "samples": samples,
        "leak_images": leak_images,
        "consistent_images": images.len(),
        "enumerated_kind_assignment_images": enumerated,
        "format_geometries_refused": refused,
        "exhaustive": true,
    });
    run.finish(cov, vec!["rqcow2 is built from /repo's working tree by the check itself".into(), "dump/info/map sub-commands are outside the property".into()])
}
