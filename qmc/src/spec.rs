//! SpecKit — qcow2 image builder and checker written from the qcow2
//! specification text (docs/interop/qcow2.txt), sharing no code with the
//! library under test.
use std::collections::BTreeMap;

pub const MAGIC: u32 = 0x5146_49fb;
pub const BLK: usize = 512;

// ---------------------------------------------------------------------
// guest payload words: every 512-byte guest block the harness writes is 64
// copies of one big-endian u64 "word". The word has L1/L2/reftable reserved
// bits set (bits 1..8 and 56..61) and bits 62/63 clear, so any aligned
// 8-byte window of payload is an *invalid* table entry for every table kind.
// ---------------------------------------------------------------------
pub fn word(tag: u32, blk: u32) -> u64 {
    0x3F00_0000_0000_01FE | (((tag as u64) & 0xFF_FFFF) << 24) | (((blk as u64) & 0x7FFF) << 9)
}
pub fn word_tag(w: u64) -> u32 {
    ((w >> 24) & 0xFF_FFFF) as u32
}
pub fn fill_block(dst: &mut [u8], w: u64) {
    debug_assert!(dst.len() == BLK);
    let b = w.to_be_bytes();
    for c in dst.chunks_mut(8) {
        c.copy_from_slice(&b);
    }
}
/// decode a 512-byte block into its word; None when the block is not uniform
pub fn block_word(src: &[u8]) -> Option<u64> {
    let first = &src[..8];
    if src.chunks(8).all(|c| c == first) {
        Some(u64::from_be_bytes(first.try_into().unwrap()))
    } else {
        None
    }
}

fn be32(b: &[u8], o: usize) -> u32 {
    u32::from_be_bytes(b[o..o + 4].try_into().unwrap())
}
fn be64(b: &[u8], o: usize) -> u64 {
    u64::from_be_bytes(b[o..o + 8].try_into().unwrap())
}
fn put32(b: &mut [u8], o: usize, v: u32) {
    b[o..o + 4].copy_from_slice(&v.to_be_bytes());
}
fn put64(b: &mut [u8], o: usize, v: u64) {
    b[o..o + 8].copy_from_slice(&v.to_be_bytes());
}

// ---------------------------------------------------------------------
// refcount packing (spec: big-endian for >= 8 bit; sub-byte entries are
// packed LSB first inside a byte)
// ---------------------------------------------------------------------
pub fn rc_get(block: &[u8], order: u32, idx: usize) -> u64 {
    match order {
        0 => ((block[idx / 8] >> (idx % 8)) & 1) as u64,
        1 => ((block[idx / 4] >> (2 * (idx % 4))) & 3) as u64,
        2 => ((block[idx / 2] >> (4 * (idx % 2))) & 15) as u64,
        3 => block[idx] as u64,
        4 => u16::from_be_bytes(block[idx * 2..idx * 2 + 2].try_into().unwrap()) as u64,
        5 => u32::from_be_bytes(block[idx * 4..idx * 4 + 4].try_into().unwrap()) as u64,
        6 => u64::from_be_bytes(block[idx * 8..idx * 8 + 8].try_into().unwrap()),
        _ => panic!("bad refcount order"),
    }
}
pub fn rc_max(order: u32) -> u64 {
    if order >= 6 {
        u64::MAX
    } else {
        (1u64 << (1u32 << order)) - 1
    }
}
pub fn rc_set(block: &mut [u8], order: u32, idx: usize, v: u64) {
    assert!(v <= rc_max(order));
    match order {
        0 => {
            let s = idx % 8;
            block[idx / 8] = (block[idx / 8] & !(1 << s)) | ((v as u8) << s);
        }
        1 => {
            let s = 2 * (idx % 4);
            block[idx / 4] = (block[idx / 4] & !(3 << s)) | ((v as u8) << s);
        }
        2 => {
            let s = 4 * (idx % 2);
            block[idx / 2] = (block[idx / 2] & !(15 << s)) | ((v as u8) << s);
        }
        3 => block[idx] = v as u8,
        4 => block[idx * 2..idx * 2 + 2].copy_from_slice(&(v as u16).to_be_bytes()),
        5 => block[idx * 4..idx * 4 + 4].copy_from_slice(&(v as u32).to_be_bytes()),
        6 => block[idx * 8..idx * 8 + 8].copy_from_slice(&v.to_be_bytes()),
        _ => panic!("bad refcount order"),
    }
}

// ---------------------------------------------------------------------
// Builder
// ---------------------------------------------------------------------
#[derive(Clone, Debug, PartialEq, Eq)]
pub enum GKind {
    /// L2 entry 0 (reads zeros, or backing data when a backing file exists)
    Unalloc,
    /// standard cluster with its own host cluster
    Data,
    /// zero flag, no host cluster (v3 only)
    Zero,
    /// zero flag with a preallocated host cluster (v3 only)
    ZeroPrealloc,
    /// deflate-compressed cluster
    Compressed,
}

#[derive(Clone, Debug)]
pub struct ImageSpec {
    pub version: u32,
    pub cluster_bits: u32,
    pub refcount_order: u32,
    pub virtual_size: u64,
    /// kind per guest cluster (missing tail = Unalloc)
    pub kinds: Vec<GKind>,
    /// tag base for content words of this image's own clusters
    pub tag_base: u32,
    /// refcount structures placed after everything else instead of first
    pub refcount_last: bool,
    /// header l1_size lists only as many entries as are needed for the last mapped cluster
    pub short_l1: bool,
    /// the bytes behind the header's l1_size entries, up to the end of the table's last cluster,
    /// hold junk (they are not part of the table: any content is legal there)
    pub l1_tail_junk: bool,
    /// free host clusters inside the file hold junk (legal: nothing refers to them)
    pub free_junk: bool,
    /// version 3 header_length (104 = no compression-type byte, as written by old qemu; > 112 = unknown additional fields, zero); 0 = 112
    pub header_length: u32,
    /// number of free host clusters left between consecutive allocations
    pub gap: usize,
    /// backing file name stored in the header
    pub backing_name: Option<String>,
    /// emit a feature-name table and a backing-format extension
    pub extensions: bool,
    /// pad bytes before the first compressed cluster (sector misalignment)
    pub comp_pad: usize,
    /// if set, the compressed run is positioned so that its first cluster
    /// ends exactly at a host cluster boundary
    pub comp_end_on_boundary: bool,
    /// file ends right after the last used byte instead of on a cluster boundary
    pub ragged_end: bool,
    /// extra refcount-table clusters / reserved free clusters inside the covered range
    pub min_file_clusters: usize,
    /// reserve this many reftable clusters (0 = minimal)
    pub reftable_clusters: usize,
    /// host cluster indices the sequential allocator leaves free
    pub skip_host: Vec<usize>,
    /// every compressed stream gets host clusters of its own (needed for 1-bit refcounts)
    pub comp_separate: bool,
}

impl ImageSpec {
    pub fn new(cluster_bits: u32, refcount_order: u32, virtual_size: u64) -> Self {
        ImageSpec {
            version: 3,
            cluster_bits,
            refcount_order,
            virtual_size,
            kinds: vec![],
            tag_base: 0xB0_0000,
            refcount_last: false,
            short_l1: false,
            header_length: 0,
            free_junk: false,
            l1_tail_junk: false,
            gap: 0,
            backing_name: None,
            extensions: false,
            comp_pad: 0,
            comp_end_on_boundary: false,
            ragged_end: false,
            min_file_clusters: 0,
            reftable_clusters: 0,
            skip_host: vec![],
            comp_separate: false,
        }
    }
    pub fn cs(&self) -> usize {
        1usize << self.cluster_bits
    }
    pub fn guest_clusters(&self) -> usize {
        ((self.virtual_size + self.cs() as u64 - 1) >> self.cluster_bits) as usize
    }
}

#[derive(Clone, Debug)]
pub struct GTruth {
    pub kind: GKind,
    /// host offset for Data / ZeroPrealloc; byte offset of compressed data
    pub host_off: u64,
    pub comp_len: usize,
    /// content word per 512-byte block of this cluster (0 = zeros);
    /// empty for Unalloc (content comes from backing or zeros)
    pub words: Vec<u64>,
}

#[derive(Clone, Debug)]
pub struct Built {
    pub bytes: Vec<u8>,
    pub truth: Vec<GTruth>,
    pub spec: ImageSpec,
    pub l1_entries: usize,
    pub l1_off: u64,
    pub rt_off: u64,
    pub rt_clusters: usize,
}

pub fn geometry(cluster_bits: u32, refcount_order: u32) -> (usize, usize, usize) {
    let cs = 1usize << cluster_bits;
    let l2_entries = cs / 8;
    let rb_entries = cs * 8 / (1usize << refcount_order);
    (cs, l2_entries, rb_entries)
}

pub fn build_image(spec: &ImageSpec) -> Built {
    let (cs, l2e, rbe) = geometry(spec.cluster_bits, spec.refcount_order);
    let cb = spec.cluster_bits;
    let gcl = spec.guest_clusters();
    let blocks_per_cluster = cs / BLK;
    let kinds: Vec<GKind> = (0..gcl).map(|i| spec.kinds.get(i).cloned().unwrap_or(GKind::Unalloc)).collect();
    if spec.version == 2 {
        assert!(!kinds.iter().any(|k| matches!(k, GKind::Zero | GKind::ZeroPrealloc)), "v2 has no zero flag");
    }
    let max_l1 = (gcl + l2e - 1) / l2e;
    let max_l1 = max_l1.max(1);
    let last_mapped = kinds.iter().rposition(|k| *k != GKind::Unalloc);
    let l1_entries = if spec.short_l1 { last_mapped.map(|c| c / l2e + 1).unwrap_or(1) } else { max_l1 };
    let l1_clusters = (l1_entries * 8 + cs - 1) / cs;

    // which L2 tables exist
    let mut l2_needed = vec![false; l1_entries];
    for (i, k) in kinds.iter().enumerate() {
        if *k != GKind::Unalloc {
            l2_needed[i / l2e] = true;
        }
    }

    // compressed payloads
    let mut truth: Vec<GTruth> = Vec::with_capacity(gcl);
    let mut comp_payloads: Vec<(usize, Vec<u8>)> = vec![];
    for (i, k) in kinds.iter().enumerate() {
        let words: Vec<u64> = match k {
            GKind::Data | GKind::Compressed => {
                (0..blocks_per_cluster).map(|b| word(spec.tag_base + i as u32, b as u32)).collect()
            }
            GKind::Zero | GKind::ZeroPrealloc => vec![0; blocks_per_cluster],
            GKind::Unalloc => vec![],
        };
        if *k == GKind::Compressed {
            let mut plain = vec![0u8; cs];
            for (b, w) in words.iter().enumerate() {
                fill_block(&mut plain[b * BLK..(b + 1) * BLK], *w);
            }
            let c = miniz_oxide::deflate::compress_to_vec(&plain, 6);
            assert!(c.len() < cs, "compressed payload does not fit below a cluster");
            comp_payloads.push((i, c));
        }
        truth.push(GTruth { kind: k.clone(), host_off: 0, comp_len: 0, words });
    }

    // ----- host allocation (cluster indices) -----
    // items to place: l1 (l1_clusters), l2 tables, data/prealloc clusters, compressed area
    let comp_total: usize = spec.comp_pad + comp_payloads.iter().map(|p| p.1.len()).sum::<usize>();
    let mut comp_area_clusters = (comp_total + cs - 1) / cs;
    if spec.comp_end_on_boundary && !comp_payloads.is_empty() {
        comp_area_clusters += 1;
    }
    if spec.comp_separate {
        comp_area_clusters = comp_payloads.iter().map(|p| (spec.comp_pad % cs + p.1.len() + cs - 1) / cs).sum();
    }
    let n_l2 = l2_needed.iter().filter(|x| **x).count();
    let n_data = kinds.iter().filter(|k| matches!(k, GKind::Data | GKind::ZeroPrealloc)).count();
    let other = 1 + l1_clusters + n_l2 + n_data + comp_area_clusters; // incl. header
    let gap = spec.gap;
    // fixpoint for refcount structures
    let mut rb_count = 1usize;
    let mut rt_clusters = spec.reftable_clusters.max(1);
    loop {
        let items = other + rt_clusters + rb_count;
        let total = (items + gap * items + spec.skip_host.len()).max(spec.min_file_clusters);
        let need_rb = (total + rbe - 1) / rbe;
        let need_rt = ((need_rb * 8 + cs - 1) / cs).max(spec.reftable_clusters.max(1));
        if need_rb <= rb_count && need_rt <= rt_clusters {
            break;
        }
        rb_count = need_rb.max(rb_count);
        rt_clusters = need_rt.max(rt_clusters);
    }

    let mut next = 1usize; // cluster 0 = header
    let skip = spec.skip_host.clone();
    let mut alloc = |n: usize| -> usize {
        // first position where n consecutive clusters avoid the skip list
        while (next..next + n).any(|c| skip.contains(&c)) {
            next += 1;
        }
        let s = next;
        next += n + gap;
        s
    };
    let mut rt_cl = 0;
    let mut rb_cls: Vec<usize> = vec![];
    if !spec.refcount_last {
        rt_cl = alloc(rt_clusters);
        for _ in 0..rb_count {
            rb_cls.push(alloc(1));
        }
    }
    let l1_cl = alloc(l1_clusters);
    let mut l2_cl: Vec<Option<usize>> = vec![None; l1_entries];
    for i in 0..l1_entries {
        if l2_needed[i] {
            l2_cl[i] = Some(alloc(1));
        }
    }
    let mut refs: BTreeMap<usize, u64> = BTreeMap::new();
    let mut addref = |c: usize, refs: &mut BTreeMap<usize, u64>| {
        *refs.entry(c).or_insert(0) += 1;
    };
    addref(0, &mut refs);
    for i in 0..l1_clusters {
        addref(l1_cl + i, &mut refs);
    }
    for c in l2_cl.iter().flatten() {
        addref(*c, &mut refs);
    }
    for (i, k) in kinds.iter().enumerate() {
        if matches!(k, GKind::Data | GKind::ZeroPrealloc) {
            let c = alloc(1);
            truth[i].host_off = (c as u64) << cb;
            addref(c, &mut refs);
        }
    }
    // compressed area
    if spec.comp_separate {
        for (gi, payload) in comp_payloads.iter() {
            let pad = spec.comp_pad % cs;
            let n = (pad + payload.len() + cs - 1) / cs;
            let start_cl = alloc(n);
            let pos = ((start_cl as u64) << cb) + pad as u64;
            truth[*gi].host_off = pos;
            truth[*gi].comp_len = payload.len();
            let nb_sectors = ((pos & 511) as usize + payload.len() + 511) / 512;
            let s = pos & !511;
            let e = s + (nb_sectors as u64) * 512;
            for c in ((s >> cb) as usize)..=(((e - 1) >> cb) as usize) {
                addref(c, &mut refs);
            }
        }
    } else if !comp_payloads.is_empty() {
        let start_cl = alloc(comp_area_clusters);
        let mut pos = ((start_cl as u64) << cb) + spec.comp_pad as u64;
        if spec.comp_end_on_boundary {
            // first payload ends exactly on the first cluster boundary of the area
            let first_len = comp_payloads[0].1.len() as u64;
            pos = (((start_cl + 1) as u64) << cb) - first_len;
        }
        for (gi, payload) in comp_payloads.iter() {
            truth[*gi].host_off = pos;
            truth[*gi].comp_len = payload.len();
            // refcounts: clusters covered by [pos & !511, .. + nb_sectors*512)
            let nb_sectors = ((pos & 511) as usize + payload.len() + 511) / 512;
            let s = pos & !511;
            let e = s + (nb_sectors as u64) * 512;
            let c0 = (s >> cb) as usize;
            let c1 = ((e - 1) >> cb) as usize;
            for c in c0..=c1 {
                addref(c, &mut refs);
            }
            pos += payload.len() as u64;
        }
    }
    if spec.refcount_last {
        rt_cl = alloc(rt_clusters);
        for _ in 0..rb_count {
            rb_cls.push(alloc(1));
        }
    }
    for i in 0..rt_clusters {
        addref(rt_cl + i, &mut refs);
    }
    for c in rb_cls.iter() {
        addref(*c, &mut refs);
    }
    let used_end = next - gap.min(next);
    let mut file_clusters = used_end.max(spec.min_file_clusters.min(rb_count * rbe));
    if file_clusters > rb_count * rbe {
        file_clusters = rb_count * rbe;
    }
    assert!(used_end <= rb_count * rbe, "refcount structures too small: {} > {}", used_end, rb_count * rbe);
    let mut bytes = vec![0u8; file_clusters << cb];

    // ----- write tables -----
    // reftable
    for (i, c) in rb_cls.iter().enumerate() {
        put64(&mut bytes, (rt_cl << cb) + i * 8, (*c as u64) << cb);
    }
    // refblocks
    for (c, n) in refs.iter() {
        let rb = rb_cls[c / rbe];
        let base = rb << cb;
        assert!(*n <= rc_max(spec.refcount_order), "image spec needs refcount {} on host cluster {} but the width holds {}", n, c, rc_max(spec.refcount_order));
        rc_set(&mut bytes[base..base + cs], spec.refcount_order, c % rbe, *n);
    }
    // L1
    for i in 0..l1_entries {
        if let Some(c) = l2_cl[i] {
            put64(&mut bytes, (l1_cl << cb) + i * 8, (1u64 << 63) | ((c as u64) << cb));
        }
    }
    if spec.l1_tail_junk {
        let start = (l1_cl << cb) + l1_entries * 8;
        let end = (l1_cl + l1_clusters) << cb;
        for o in (start..end).step_by(8) {
            put64(&mut bytes, o, word(0xDEAD01, (o / 8) as u32));
        }
    }
    // L2 + data
    let x = 62 - (cb - 8); // bits of the compressed offset field
    for (i, t) in truth.iter().enumerate() {
        let l2 = match l2_cl[(i / l2e).min(l1_entries - 1)] {
            Some(c) if i / l2e < l1_entries => c,
            _ => continue,
        };
        let eoff = (l2 << cb) + (i % l2e) * 8;
        let entry: u64 = match t.kind {
            GKind::Unalloc => 0,
            GKind::Data => (1u64 << 63) | t.host_off,
            GKind::Zero => 1,
            GKind::ZeroPrealloc => (1u64 << 63) | t.host_off | 1,
            GKind::Compressed => {
                let nb_sectors = ((t.host_off & 511) as usize + t.comp_len + 511) / 512;
                (1u64 << 62) | (((nb_sectors - 1) as u64) << x) | t.host_off
            }
        };
        put64(&mut bytes, eoff, entry);
        match t.kind {
            GKind::Data => {
                let o = t.host_off as usize;
                for (b, w) in t.words.iter().enumerate() {
                    fill_block(&mut bytes[o + b * BLK..o + (b + 1) * BLK], *w);
                }
            }
            GKind::ZeroPrealloc => {
                // preallocated cluster holds stale (non-zero) bytes that must never be read
                let o = t.host_off as usize;
                for b in 0..blocks_per_cluster {
                    fill_block(&mut bytes[o + b * BLK..o + (b + 1) * BLK], word(0xDEAD00, b as u32));
                }
            }
            _ => {}
        }
    }
    for (gi, payload) in comp_payloads.iter() {
        let o = truth[*gi].host_off as usize;
        bytes[o..o + payload.len()].copy_from_slice(payload);
    }

    if spec.free_junk {
        for c in 1..file_clusters {
            if !refs.contains_key(&c) {
                for b in 0..blocks_per_cluster {
                    fill_block(&mut bytes[(c << cb) + b * BLK..(c << cb) + (b + 1) * BLK], word(0xDEAD02, (c * blocks_per_cluster + b) as u32));
                }
            }
        }
    }
    // ----- header -----
    let hlen: usize = if spec.version == 2 { 72 } else if spec.header_length != 0 { spec.header_length as usize } else { 112 };
    put32(&mut bytes, 0, MAGIC);
    put32(&mut bytes, 4, spec.version);
    put32(&mut bytes, 20, cb);
    put64(&mut bytes, 24, spec.virtual_size);
    put32(&mut bytes, 32, 0);
    put32(&mut bytes, 36, l1_entries as u32);
    put64(&mut bytes, 40, (l1_cl as u64) << cb);
    put64(&mut bytes, 48, (rt_cl as u64) << cb);
    put32(&mut bytes, 56, rt_clusters as u32);
    put32(&mut bytes, 60, 0);
    put64(&mut bytes, 64, 0);
    if spec.version >= 3 {
        put64(&mut bytes, 72, 0);
        put64(&mut bytes, 80, 0);
        put64(&mut bytes, 88, 0);
        put32(&mut bytes, 96, spec.refcount_order);
        put32(&mut bytes, 100, hlen as u32);
        if hlen > 104 {
            bytes[104] = 0;
        }
    }
    let mut eo = hlen;
    if spec.extensions {
        if spec.backing_name.is_some() {
            // backing format
            put32(&mut bytes, eo, 0xe279_2aca);
            put32(&mut bytes, eo + 4, 5);
            bytes[eo + 8..eo + 13].copy_from_slice(b"qcow2");
            eo += 8 + 8;
        }
        // feature name table with one entry
        put32(&mut bytes, eo, 0x6803_f857);
        put32(&mut bytes, eo + 4, 48);
        bytes[eo + 8] = 0;
        bytes[eo + 9] = 0;
        bytes[eo + 10..eo + 19].copy_from_slice(b"dirty bit");
        eo += 8 + 48;
        // unknown extension, length not a multiple of 8
        put32(&mut bytes, eo, 0x1234_5678);
        put32(&mut bytes, eo + 4, 5);
        bytes[eo + 8..eo + 13].copy_from_slice(b"hello");
        eo += 8 + 8;
    }
    // end marker
    put32(&mut bytes, eo, 0);
    put32(&mut bytes, eo + 4, 0);
    eo += 8;
    if let Some(name) = &spec.backing_name {
        put64(&mut bytes, 8, eo as u64);
        put32(&mut bytes, 16, name.len() as u32);
        bytes[eo..eo + name.len()].copy_from_slice(name.as_bytes());
        eo += name.len();
    }
    assert!(eo <= cs, "header does not fit the first cluster");

    if spec.ragged_end {
        // cut the file right after the last non-zero byte, rounded up to 512
        let last = bytes.iter().rposition(|b| *b != 0).unwrap_or(0) + 1;
        let cut = (last + 511) & !511;
        bytes.truncate(cut.max(cs));
    }

    Built {
        bytes,
        truth,
        spec: spec.clone(),
        l1_entries,
        l1_off: (l1_cl as u64) << cb,
        rt_off: (rt_cl as u64) << cb,
        rt_clusters,
    }
}

// ---------------------------------------------------------------------
// Checker
// ---------------------------------------------------------------------
#[derive(Clone, Debug, Default)]
pub struct Header {
    pub version: u32,
    pub backing_off: u64,
    pub backing_len: u32,
    pub cluster_bits: u32,
    pub size: u64,
    pub crypt: u32,
    pub l1_size: u32,
    pub l1_off: u64,
    pub rt_off: u64,
    pub rt_clusters: u32,
    pub nb_snapshots: u32,
    pub snapshots_off: u64,
    pub incompatible: u64,
    pub compatible: u64,
    pub autoclear: u64,
    pub refcount_order: u32,
    pub header_length: u32,
    pub compression_type: u8,
}

pub fn parse_header(b: &[u8]) -> Result<Header, String> {
    if b.len() < 72 {
        return Err("file shorter than a v2 header".into());
    }
    if be32(b, 0) != MAGIC {
        return Err("bad magic".into());
    }
    let mut h = Header {
        version: be32(b, 4),
        backing_off: be64(b, 8),
        backing_len: be32(b, 16),
        cluster_bits: be32(b, 20),
        size: be64(b, 24),
        crypt: be32(b, 32),
        l1_size: be32(b, 36),
        l1_off: be64(b, 40),
        rt_off: be64(b, 48),
        rt_clusters: be32(b, 56),
        nb_snapshots: be32(b, 60),
        snapshots_off: be64(b, 64),
        refcount_order: 4,
        header_length: 72,
        ..Default::default()
    };
    if h.version != 2 && h.version != 3 {
        return Err(format!("unsupported version {}", h.version));
    }
    if h.version == 3 {
        if b.len() < 104 {
            return Err("file shorter than a v3 header".into());
        }
        h.incompatible = be64(b, 72);
        h.compatible = be64(b, 80);
        h.autoclear = be64(b, 88);
        h.refcount_order = be32(b, 96);
        h.header_length = be32(b, 100);
        if h.header_length < 104 || h.header_length % 8 != 0 {
            return Err(format!("bad header_length {}", h.header_length));
        }
        if h.header_length > 104 && b.len() > 104 {
            h.compression_type = b[104];
        }
    }
    if !(9..=21).contains(&h.cluster_bits) {
        return Err(format!("cluster_bits {} out of range", h.cluster_bits));
    }
    if h.refcount_order > 6 {
        return Err(format!("refcount_order {} out of range", h.refcount_order));
    }
    let cs = 1u64 << h.cluster_bits;
    if h.l1_off % cs != 0 {
        return Err("L1 table offset unaligned".into());
    }
    if h.rt_off % cs != 0 {
        return Err("refcount table offset unaligned".into());
    }
    if h.rt_off == 0 || h.rt_clusters == 0 {
        return Err("no refcount table".into());
    }
    Ok(h)
}

#[derive(Clone, Copy, Debug, PartialEq, Eq, PartialOrd, Ord)]
pub enum Owner {
    Header,
    RefTable,
    RefBlock,
    L1,
    L2,
    Data,
    Compressed,
}

#[derive(Clone, Debug, Default)]
pub struct Report {
    /// header / top-level structure cannot be interpreted
    pub fatal: Vec<String>,
    /// unaligned pointers or reserved bits set in reachable entries
    pub bad_entry: Vec<String>,
    /// reachable table pointer whose target holds invalid entries / lies in garbage
    pub uninit_table: Vec<String>,
    /// host cluster referenced by two owners (not both compressed)
    pub double_ref: Vec<String>,
    /// COPIED flag disagrees with refcount == 1
    pub copied: Vec<String>,
    /// mapping for a guest cluster at or beyond the virtual size
    pub beyond_size: Vec<String>,
    /// (host cluster index, stored, references) stored < references
    pub under: Vec<(u64, u64, u64)>,
    /// stored > references
    pub leaked: Vec<(u64, u64, u64)>,
    /// guest cluster -> (kind char, host offset)
    pub mapping: Vec<(char, u64)>,
    pub refs: BTreeMap<u64, Vec<Owner>>,
    pub header: Header,
}

impl Report {
    pub fn strict_ok(&self) -> bool {
        self.safe_ok() && self.leaked.is_empty() && self.copied.is_empty() && self.beyond_size.is_empty()
    }
    pub fn safe_ok(&self) -> bool {
        self.fatal.is_empty()
            && self.bad_entry.is_empty()
            && self.uninit_table.is_empty()
            && self.double_ref.is_empty()
            && self.under.is_empty()
    }
    pub fn first_problem(&self, strict: bool) -> Option<(String, String)> {
        if let Some(x) = self.fatal.first() {
            return Some(("fatal".into(), x.clone()));
        }
        if let Some(x) = self.bad_entry.first() {
            return Some(("bad_entry".into(), x.clone()));
        }
        if let Some(x) = self.uninit_table.first() {
            return Some(("uninit_table".into(), x.clone()));
        }
        if let Some(x) = self.double_ref.first() {
            return Some(("double_ref".into(), x.clone()));
        }
        if let Some(x) = self.under.first() {
            return Some(("under".into(), format!("host cluster {:#x} stored {} refs {} ({:?})", x.0, x.1, x.2, self.refs.get(&x.0))));
        }
        if strict {
            if let Some(x) = self.leaked.first() {
                return Some(("leak".into(), format!("host cluster {:#x} stored {} refs {}", x.0, x.1, x.2)));
            }
            if let Some(x) = self.copied.first() {
                return Some(("copied".into(), x.clone()));
            }
            if let Some(x) = self.beyond_size.first() {
                return Some(("beyond_size".into(), x.clone()));
            }
        }
        None
    }
}

fn rd<'a>(b: &'a [u8], off: u64, len: usize, scratch: &'a mut Vec<u8>) -> &'a [u8] {
    // bytes beyond the end of the file read as zeros (a hole)
    let off = off as usize;
    if off + len <= b.len() {
        &b[off..off + len]
    } else {
        scratch.clear();
        scratch.resize(len, 0);
        if off < b.len() {
            let n = b.len() - off;
            scratch[..n].copy_from_slice(&b[off..]);
        }
        &scratch[..]
    }
}

/// Check an image given as bytes. `has_backing_ok`: nothing depends on it.
pub fn check_image(b: &[u8]) -> Report {
    let mut r = Report::default();
    let h = match parse_header(b) {
        Ok(h) => h,
        Err(e) => {
            r.fatal.push(e);
            return r;
        }
    };
    r.header = h.clone();
    if h.incompatible != 0 {
        r.fatal.push(format!("incompatible features {:#x}", h.incompatible));
        return r;
    }
    if h.crypt != 0 {
        r.fatal.push("encrypted".into());
        return r;
    }
    let cb = h.cluster_bits;
    let cs = 1usize << cb;
    let csu = cs as u64;
    let (_, l2e, rbe) = geometry(cb, h.refcount_order);
    let file_clusters = ((b.len() as u64) + csu - 1) >> cb;
    let max_host = 1u64 << 56;

    let mut refs: BTreeMap<u64, Vec<Owner>> = BTreeMap::new();
    let mut add = |c: u64, o: Owner, refs: &mut BTreeMap<u64, Vec<Owner>>| refs.entry(c).or_default().push(o);
    add(0, Owner::Header, &mut refs);

    // ---- refcount table ----
    let rt_bytes = (h.rt_clusters as usize) << cb;
    if h.rt_off >= max_host || rt_bytes > (8 << 20) {
        r.fatal.push("refcount table out of range".into());
        return r;
    }
    for i in 0..h.rt_clusters as u64 {
        add((h.rt_off >> cb) + i, Owner::RefTable, &mut refs);
    }
    let mut scratch = Vec::new();
    let rt: Vec<u64> = {
        let s = rd(b, h.rt_off, rt_bytes, &mut scratch);
        s.chunks(8).map(|c| u64::from_be_bytes(c.try_into().unwrap())).collect()
    };
    let mut rb_offs: Vec<u64> = vec![0; rt.len()];
    for (i, e) in rt.iter().enumerate() {
        if *e == 0 {
            continue;
        }
        if e & 0x1ff != 0 {
            r.bad_entry.push(format!("reftable[{}]={:#x} reserved bits", i, e));
            continue;
        }
        if e % csu != 0 {
            r.bad_entry.push(format!("reftable[{}]={:#x} unaligned", i, e));
            continue;
        }
        if *e >= max_host {
            r.bad_entry.push(format!("reftable[{}]={:#x} out of range", i, e));
            continue;
        }
        rb_offs[i] = *e;
        add(e >> cb, Owner::RefBlock, &mut refs);
    }
    let stored = |c: u64| -> u64 {
        let ri = (c as usize) / rbe;
        if ri >= rb_offs.len() || rb_offs[ri] == 0 {
            return 0;
        }
        let mut sc = Vec::new();
        let blk = rd(b, rb_offs[ri], cs, &mut sc);
        rc_get(blk, h.refcount_order, (c as usize) % rbe)
    };

    // ---- L1 ----
    let l1_bytes = h.l1_size as usize * 8;
    if l1_bytes > (32 << 20) || h.l1_off >= max_host {
        r.fatal.push("L1 table out of range".into());
        return r;
    }
    if h.l1_size > 0 && h.l1_off == 0 {
        r.fatal.push("L1 table offset 0".into());
        return r;
    }
    let l1_clusters = (l1_bytes as u64 + csu - 1) >> cb;
    for i in 0..l1_clusters {
        add((h.l1_off >> cb) + i, Owner::L1, &mut refs);
    }
    let gcl = (h.size + csu - 1) >> cb;
    let l1: Vec<u64> = {
        let s = rd(b, h.l1_off, l1_bytes, &mut scratch);
        s.chunks(8).map(|c| u64::from_be_bytes(c.try_into().unwrap())).collect()
    };
    // per-guest-cluster mapping only for images of moderate virtual size
    let keep_mapping = gcl <= (1 << 22);
    r.mapping = if keep_mapping { vec![('u', 0); gcl as usize] } else { vec![] };
    let x = 62 - (cb - 8);
    for (i, e) in l1.iter().enumerate() {
        if *e == 0 {
            continue;
        }
        if e & 0x7f00_0000_0000_01ff != 0 {
            r.bad_entry.push(format!("L1[{}]={:#x} reserved bits", i, e));
            continue;
        }
        let off = e & 0x00ff_ffff_ffff_fe00;
        if off == 0 {
            continue;
        }
        if off % csu != 0 {
            r.bad_entry.push(format!("L1[{}]={:#x} unaligned", i, e));
            continue;
        }
        if (i as u64) * (l2e as u64) >= gcl {
            r.beyond_size.push(format!("L1[{}] maps beyond the virtual size", i));
        }
        add(off >> cb, Owner::L2, &mut refs);
        let copied = e >> 63 == 1;
        if copied != (stored(off >> cb) == 1) {
            r.copied.push(format!("L1[{}]={:#x} COPIED={} but refcount {}", i, e, copied, stored(off >> cb)));
        }
        let l2: Vec<u64> = {
            let s = rd(b, off, cs, &mut scratch);
            s.chunks(8).map(|c| u64::from_be_bytes(c.try_into().unwrap())).collect()
        };
        let mut table_bad = 0usize;
        for (j, le) in l2.iter().enumerate() {
            if *le == 0 {
                continue;
            }
            let g = (i as u64) * (l2e as u64) + j as u64;
            if le >> 62 & 1 == 1 {
                // compressed
                let coff = le & ((1u64 << x) - 1);
                let nsec = ((le >> x) & ((1u64 << (62 - x)) - 1)) + 1;
                let s = coff & !511;
                let e2 = s + nsec * 512;
                if le >> 63 == 1 {
                    table_bad += 1;
                    r.bad_entry.push(format!("L2[{}][{}]={:#x} compressed with COPIED", i, j, le));
                    continue;
                }
                if e2 > (file_clusters << cb) + csu {
                    table_bad += 1;
                    r.bad_entry.push(format!("L2[{}][{}]={:#x} compressed data beyond file", i, j, le));
                    continue;
                }
                if g >= gcl {
                    r.beyond_size.push(format!("L2[{}][{}] maps guest cluster {} beyond the virtual size", i, j, g));
                } else if keep_mapping {
                    r.mapping[g as usize] = ('c', coff);
                }
                for c in (s >> cb)..=((e2 - 1) >> cb) {
                    add(c, Owner::Compressed, &mut refs);
                }
            } else {
                if le & 0x3f00_0000_0000_01fe != 0 {
                    table_bad += 1;
                    r.bad_entry.push(format!("L2[{}][{}]={:#x} reserved bits", i, j, le));
                    continue;
                }
                let doff = le & 0x00ff_ffff_ffff_fe00;
                if doff % csu != 0 {
                    table_bad += 1;
                    r.bad_entry.push(format!("L2[{}][{}]={:#x} unaligned", i, j, le));
                    continue;
                }
                let zero = le & 1 == 1;
                if zero && h.version < 3 {
                    r.bad_entry.push(format!("L2[{}][{}]={:#x} zero flag in v2 image", i, j, le));
                }
                if g >= gcl {
                    r.beyond_size.push(format!("L2[{}][{}] maps guest cluster {} beyond the virtual size", i, j, g));
                } else if keep_mapping {
                    r.mapping[g as usize] = if zero { ('z', doff) } else if doff != 0 { ('d', doff) } else { ('u', 0) };
                }
                if doff != 0 {
                    add(doff >> cb, Owner::Data, &mut refs);
                    let copied = le >> 63 == 1;
                    if copied != (stored(doff >> cb) == 1) {
                        r.copied.push(format!(
                            "L2[{}][{}]={:#x} COPIED={} but refcount {}",
                            i,
                            j,
                            le,
                            copied,
                            stored(doff >> cb)
                        ));
                    }
                } else if le >> 63 == 1 {
                    table_bad += 1;
                    r.bad_entry.push(format!("L2[{}][{}]={:#x} COPIED without offset", i, j, le));
                }
            }
        }
        if table_bad > 0 {
            r.uninit_table.push(format!("L2 table at {:#x} (L1[{}]) holds {} invalid entries", off, i, table_bad));
        }
    }

    // ---- compare ----
    let covered = (rb_offs.len() * rbe) as u64;
    for (c, owners) in refs.iter() {
        let n = owners.len() as u64;
        let non_comp = owners.iter().filter(|o| **o != Owner::Compressed).count();
        if non_comp > 1 || (non_comp == 1 && owners.len() > 1) {
            r.double_ref.push(format!("host cluster {:#x} referenced by {:?}", c, owners));
        }
        let st = stored(*c);
        if st < n {
            r.under.push((*c, st, n));
        } else if st > n {
            r.leaked.push((*c, st, n));
        }
    }
    // leaked clusters nobody references: scan every refblock for non-zero entries
    let _ = covered;
    let ebytes = if h.refcount_order >= 3 { 1usize << (h.refcount_order - 3) } else { 1 };
    let per_byte = if h.refcount_order < 3 { 8usize >> h.refcount_order } else { 1 };
    for (ri, rb) in rb_offs.iter().enumerate() {
        if *rb == 0 {
            continue;
        }
        let mut sc = Vec::new();
        let blk = rd(b, *rb, cs, &mut sc);
        for (ci, chunk) in blk.chunks(ebytes).enumerate() {
            if chunk.iter().all(|x| *x == 0) {
                continue;
            }
            for k in ci * per_byte..(ci + 1) * per_byte {
                let c = (ri * rbe + k) as u64;
                let st = rc_get(blk, h.refcount_order, k);
                if st != 0 && !refs.contains_key(&c) {
                    r.leaked.push((c, st, 0));
                }
            }
        }
    }
    r.refs = refs;
    r
}


/// stored refcount of host cluster index `c` in image bytes (0 when not covered)
pub fn stored_refcount(b: &[u8], c: u64) -> Option<u64> {
    let h = parse_header(b).ok()?;
    let cb = h.cluster_bits;
    let cs = 1usize << cb;
    let (_, _, rbe) = geometry(cb, h.refcount_order);
    let ri = (c as usize) / rbe;
    if ri * 8 + 8 > (h.rt_clusters as usize) << cb {
        return Some(0);
    }
    let mut sc = Vec::new();
    let e = be64(rd(b, h.rt_off + (ri * 8) as u64, 8, &mut sc), 0);
    let off = e & !0x1ff;
    if off == 0 {
        return Some(0);
    }
    let mut sc2 = Vec::new();
    let blk = rd(b, off, cs, &mut sc2);
    Some(rc_get(blk, h.refcount_order, (c as usize) % rbe))
}
