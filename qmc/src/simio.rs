//! SimIo — simulated host files implementing the library's backend trait.
//!
//! One `Sim` holds the files of a whole backing chain (index 0 = top image),
//! a complete request log and the completion policy:
//!   * Immediate  — a request takes effect and completes inside its first poll
//!   * Scheduled  — first poll logs the submission and returns Pending; the
//!                  explorer later picks which outstanding request completes.
//! Effects are applied atomically at completion. A fault plan makes chosen
//! requests fail (no effect, `Err`).
use qcow2_rs::error::Qcow2Result;
use qcow2_rs::ops::Qcow2IoOps;
use std::cell::RefCell;
use std::collections::BTreeSet;
use std::future::Future;
use std::pin::Pin;
use std::rc::Rc;
use std::task::{Context, Poll, Waker};

#[derive(Clone, Debug, PartialEq, Eq)]
pub enum Kind {
    Read { len: usize },
    Write { data: Vec<u8> },
    Zero { len: usize },
    Sync,
}

impl Kind {
    pub fn short(&self) -> String {
        match self {
            Kind::Read { len } => format!("R{}", len),
            Kind::Write { data } => format!("W{}", data.len()),
            Kind::Zero { len } => format!("Z{}", len),
            Kind::Sync => "F".into(),
        }
    }
    pub fn len(&self) -> usize {
        match self {
            Kind::Read { len } => *len,
            Kind::Write { data } => data.len(),
            Kind::Zero { len } => *len,
            Kind::Sync => 0,
        }
    }
    pub fn is_modifying(&self) -> bool {
        matches!(self, Kind::Write { .. } | Kind::Zero { .. })
    }
}

#[derive(Debug)]
pub struct Req {
    pub id: usize,
    pub dev: usize,
    pub task: usize,
    pub kind: Kind,
    pub off: u64,
    pub buf_addr: usize,
    pub submit_seq: u64,
    pub complete_seq: Option<u64>,
    pub failed: bool,
    pub result_len: usize,
    /// label of the API operation during which it was submitted
    pub op_idx: usize,
    out: Option<Result<Vec<u8>, ()>>,
    waker: Option<Waker>,
}

#[derive(Clone, Debug, Default)]
pub struct FaultPlan {
    /// request ids (global submission ordinals) that fail
    pub fail_ids: BTreeSet<usize>,
    /// every fallocate fails ("hole punch unsupported")
    pub punch_unsupported: bool,
    /// all requests of these kinds fail while set: 'R','W','Z','F'
    pub fail_kinds: Vec<char>,
}

#[derive(Copy, Clone, Debug, PartialEq, Eq)]
pub enum Mode {
    Immediate,
    Scheduled,
}

pub struct Sim {
    pub files: Vec<Vec<u8>>,
    /// content of the files when the simulation started (for durability replay)
    pub initial: Vec<Vec<u8>>,
    pub reqs: Vec<Req>,
    pub mode: Mode,
    pub cur_task: usize,
    pub cur_op: usize,
    pub seq: u64,
    pub fault: FaultPlan,
    /// keep payloads of writes in the log (needed for crash enumeration)
    pub keep_payload: bool,
    /// a write that would extend the file beyond this fails (ENOSPC); the simulated file is dense
    pub max_file_len: usize,
}

impl Sim {
    pub fn new(files: Vec<Vec<u8>>) -> Rc<RefCell<Sim>> {
        Rc::new(RefCell::new(Sim {
            initial: files.clone(),
            files,
            reqs: Vec::new(),
            mode: Mode::Immediate,
            cur_task: 0,
            cur_op: 0,
            seq: 0,
            fault: FaultPlan::default(),
            keep_payload: true,
            max_file_len: 1 << 30,
        }))
    }

    fn should_fail(&self, id: usize, kind: &Kind) -> bool {
        if self.fault.fail_ids.contains(&id) {
            return true;
        }
        let c = match kind {
            Kind::Read { .. } => 'R',
            Kind::Write { .. } => 'W',
            Kind::Zero { .. } => 'Z',
            Kind::Sync => 'F',
        };
        if self.fault.fail_kinds.contains(&c) {
            return true;
        }
        matches!(kind, Kind::Zero { .. }) && self.fault.punch_unsupported
    }

    /// apply the effect of request `id` to the volatile file and complete it
    pub fn complete(&mut self, id: usize) {
        assert!(self.reqs[id].complete_seq.is_none(), "request completed twice");
        let mut fail = self.should_fail(id, &self.reqs[id].kind);
        let dev = self.reqs[id].dev;
        if let Kind::Write { data } = &self.reqs[id].kind {
            if self.reqs[id].off.saturating_add(data.len() as u64) > self.max_file_len as u64 {
                fail = true; // no space left on the (simulated) device
            }
        }
        let off = self.reqs[id].off.min(usize::MAX as u64 / 2) as usize;
        let out: Result<Vec<u8>, ()> = if fail {
            Err(())
        } else {
            let file = &mut self.files[dev];
            match &self.reqs[id].kind {
                Kind::Read { len } => {
                    if off >= file.len() {
                        Ok(vec![])
                    } else {
                        let n = (*len).min(file.len() - off);
                        Ok(file[off..off + n].to_vec())
                    }
                }
                Kind::Write { data } => {
                    let e = off + data.len();
                    if file.len() < e {
                        file.resize(e, 0);
                    }
                    file[off..e].copy_from_slice(data);
                    Ok(vec![])
                }
                Kind::Zero { len } => {
                    let fl = file.len();
                    let s = off.min(fl);
                    let e = off.saturating_add(*len).min(fl);
                    for b in &mut file[s..e] {
                        *b = 0;
                    }
                    Ok(vec![])
                }
                Kind::Sync => Ok(vec![]),
            }
        };
        self.seq += 1;
        let seq = self.seq;
        let r = &mut self.reqs[id];
        r.failed = out.is_err();
        r.result_len = out.as_ref().map(|v| v.len()).unwrap_or(0);
        r.out = Some(out);
        r.complete_seq = Some(seq);
        if let Some(w) = r.waker.take() {
            w.wake();
        }
    }

    pub fn outstanding(&self) -> Vec<usize> {
        self.reqs.iter().filter(|r| r.complete_seq.is_none()).map(|r| r.id).collect()
    }

    pub fn log_lines(&self, from: usize) -> Vec<String> {
        self.reqs[from..]
            .iter()
            .map(|r| {
                format!(
                    "#{} d{} t{} {} @{:#x}{}{}",
                    r.id,
                    r.dev,
                    r.task,
                    r.kind.short(),
                    r.off,
                    if r.failed { " FAILED" } else { "" },
                    if r.complete_seq.is_none() { " (pending)" } else { "" }
                )
            })
            .collect()
    }
}

#[derive(Clone)]
pub struct SimIo {
    pub sim: Rc<RefCell<Sim>>,
    pub dev: usize,
}

struct IoFut {
    sim: Rc<RefCell<Sim>>,
    dev: usize,
    id: Option<usize>,
    off: u64,
    buf_addr: usize,
    kind: Option<Kind>,
}

impl Future for IoFut {
    type Output = Result<Vec<u8>, ()>;
    fn poll(mut self: Pin<&mut Self>, cx: &mut Context<'_>) -> Poll<Self::Output> {
        let sim = self.sim.clone();
        let mut s = sim.borrow_mut();
        match self.id {
            None => {
                let id = s.reqs.len();
                let kind = self.kind.take().unwrap();
                s.seq += 1;
                let req = Req {
                    id,
                    dev: self.dev,
                    task: s.cur_task,
                    kind,
                    off: self.off,
                    buf_addr: self.buf_addr,
                    submit_seq: s.seq,
                    complete_seq: None,
                    failed: false,
                    result_len: 0,
                    op_idx: s.cur_op,
                    out: None,
                    waker: Some(cx.waker().clone()),
                };
                s.reqs.push(req);
                self.id = Some(id);
                if s.mode == Mode::Immediate {
                    s.reqs[id].waker = None;
                    s.complete(id);
                    return Poll::Ready(s.reqs[id].out.take().unwrap());
                }
                Poll::Pending
            }
            Some(id) => {
                if s.reqs[id].complete_seq.is_some() {
                    Poll::Ready(s.reqs[id].out.take().unwrap())
                } else {
                    s.reqs[id].waker = Some(cx.waker().clone());
                    Poll::Pending
                }
            }
        }
    }
}

impl SimIo {
    pub fn new(sim: &Rc<RefCell<Sim>>, dev: usize) -> SimIo {
        SimIo { sim: sim.clone(), dev }
    }
    fn io(&self, off: u64, kind: Kind, buf_addr: usize) -> IoFut {
        IoFut { sim: self.sim.clone(), dev: self.dev, id: None, off, buf_addr, kind: Some(kind) }
    }
}

fn io_err(what: &str) -> qcow2_rs::error::Qcow2Error {
    format!("simulated backend failure ({what})").into()
}

impl Qcow2IoOps for SimIo {
    async fn read_to(&self, offset: u64, buf: &mut [u8]) -> Qcow2Result<usize> {
        let addr = buf.as_ptr() as usize;
        match self.io(offset, Kind::Read { len: buf.len() }, addr).await {
            Ok(d) => {
                buf[..d.len()].copy_from_slice(&d);
                Ok(d.len())
            }
            Err(()) => Err(io_err("read")),
        }
    }
    async fn write_from(&self, offset: u64, buf: &[u8]) -> Qcow2Result<()> {
        let addr = buf.as_ptr() as usize;
        match self.io(offset, Kind::Write { data: buf.to_vec() }, addr).await {
            Ok(_) => Ok(()),
            Err(()) => Err(io_err("write")),
        }
    }
    async fn fallocate(&self, offset: u64, len: usize, _flags: u32) -> Qcow2Result<()> {
        match self.io(offset, Kind::Zero { len }, 0).await {
            Ok(_) => Ok(()),
            Err(()) => Err(io_err("fallocate")),
        }
    }
    async fn fsync(&self, _offset: u64, _len: usize, _flags: u32) -> Qcow2Result<()> {
        match self.io(0, Kind::Sync, 0).await {
            Ok(_) => Ok(()),
            Err(()) => Err(io_err("fsync")),
        }
    }
}
