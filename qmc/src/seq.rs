//! Sequential scenario: oracles of C01 C02 C03 C16 C18 (+ C04 C05 crash
//! enumeration, C10 read-only sources) evaluated on HIST transitions.
use crate::crash;
use crate::hist::{Eval, Scenario};
use crate::images::ImageSet;
use crate::report::Violation;
use crate::simio::{Kind, Sim};
use crate::spec::{self, check_image, BLK};
use crate::world::*;
use serde_json::json;
use std::collections::HashSet;
use std::hash::{Hash, Hasher};
use std::sync::Mutex;

#[derive(Clone, Debug, Default)]
pub struct Oracles {
    pub c01: bool,
    pub c02: bool,
    pub c03: bool,
    pub c16: bool,
    pub c18: bool,
    pub c04: bool,
    pub c05: bool,
    pub c10: bool,
}

pub struct SeqScenario {
    pub img: ImageSet,
    pub cfg: DevCfg,
    pub alt: DevCfg,
    pub cfg_name: String,
    pub alphabet: Vec<Op>,
    pub oracles: Oracles,
    pub full_sweep: bool,
    /// per-window cap on the complete crash-image product
    pub crash_cap: u64,
    /// windows above the cap: deviations from the all-lost / all-kept extremes explored
    pub crash_k: usize,
    pub crash_seen: Mutex<HashSet<u64>>,
    pub punch_unsupported: bool,
    /// report C01/C02/C03 oracle failures under this property instead (C10, C11, C12 runs)
    pub relabel: Option<String>,
    /// relabel every property's violations (C12 runs the C04/C05/C16 oracles too)
    pub relabel_all: bool,
    /// after opening a crash image keep using it: write this many fresh clusters, flush, re-check (C12)
    pub crash_continue: usize,
}

pub fn op_kind(op: &Op) -> &'static str {
    match op {
        Op::Write { .. } => "write",
        Op::Read { .. } => "read",
        Op::Discard { .. } => "discard",
        Op::Flush => "flush",
        Op::Sync => "sync",
        Op::Shrink => "shrink",
        Op::Check => "check",
        Op::Reopen => "reopen",
        Op::ReopenAlt => "reopen_alt",
        Op::Alloc(_) => "alloc",
        Op::Free(_) => "free",
    }
}

pub fn err_category(e: &str) -> String {
    // keep the stable part of an error / panic message
    let s: String = e.chars().filter(|c| !c.is_ascii_digit()).collect();
    let s = s.replace("xx", "x");
    s.chars().take(60).collect()
}

impl SeqScenario {
    pub fn new(img: ImageSet, cfg: DevCfg, alt: DevCfg, cfg_name: &str, alphabet: Vec<Op>, oracles: Oracles) -> Self {
        let full = img.rd.vsize <= (1 << 20);
        SeqScenario {
            img,
            cfg,
            alt,
            cfg_name: cfg_name.into(),
            alphabet,
            oracles,
            full_sweep: full,
            crash_cap: 1 << 14,
            crash_k: 3,
            crash_seen: Mutex::new(HashSet::new()),
            punch_unsupported: false,
            relabel: None,
            relabel_all: false,
            crash_continue: 0,
        }
    }

    pub fn replay_json(&self, hist: &[Op]) -> serde_json::Value {
        json!({
            "engine": "hist",
            "image": self.img.name,
            "image_kind": self.img.kind,
            "cfg": self.cfg.describe(), "cfg_json": self.cfg.to_json(),
            "cfg_name": self.cfg_name,
            "alt": self.alt.describe(), "alt_json": self.alt.to_json(),
            "salt": qcow2_rs::verif::ORDER_SALT.load(std::sync::atomic::Ordering::Relaxed),
            "punch_unsupported": self.punch_unsupported,
            "history": hist.iter().map(|o| o.to_json()).collect::<Vec<_>>(),
            "history_str": hist_str(hist),
        })
    }

    fn viol(&self, prop: &str, class: String, detail: String, hist: &[Op]) -> Violation {
        let (prop, class) = match &self.relabel {
            Some(r) if self.relabel_all || ["C01", "C02", "C03"].contains(&prop) => (r.as_str(), format!("{}:{}", prop, class)),
            _ => (prop, class),
        };
        Violation {
            prop: prop.into(),
            class: format!("{}|img={}|{}", class, self.img.kind, self.geo_traits()),
            detail: format!("{} [image {} cfg {} history: {}]", detail, self.img.name, self.cfg_name, hist_str(hist)),
            replay: self.replay_json(hist),
        }
    }

    fn geo_traits(&self) -> String {
        let cb = self.img.cluster_bits;
        let slice_lt = self.cfg.l2.map_or(12 < cb as u8, |x| (x.0 as u32) < cb);
        format!("slice<cluster={}", slice_lt)
    }

    pub fn new_world(&self) -> Result<World, String> {
        let w = World::new(self.img.files.clone(), self.img.rd.clone(), &self.cfg, &self.alt)?;
        w.sim.borrow_mut().fault.punch_unsupported = self.punch_unsupported;
        Ok(w)
    }

    /// open a second device on a copy of the files and sweep it
    fn reopen_check(&self, w: &World, cfg: &DevCfg, full: bool) -> Result<Vec<Mismatch>, String> {
        let files = w.sim.borrow().files.clone();
        let sim2 = Sim::new(files);
        let dev2 = open_chain(&sim2, 0, cfg, false)?;
        Ok(sweep(&dev2, &w.rd, 1usize << cfg.bs_bits, full))
    }
}

fn mismatch_class(m: &Mismatch) -> String {
    // "guest block X: expected A got B" -> expected kind / got kind
    let (mut exp, mut got) = ("?", "?");
    if m.what.starts_with("short read") {
        return "short-read".into();
    }
    if m.what.starts_with("read error") {
        return format!("read-error:{}", err_category(&m.what));
    }
    if m.what.starts_with("panic") {
        return format!("panic:{}", err_category(&m.what));
    }
    if let Some(p) = m.what.find("expected ") {
        let rest = &m.what[p + 9..];
        exp = if rest.starts_with("zeros") { "zeros" } else { "data" };
        if let Some(q) = rest.find(" got ") {
            let g = &rest[q + 5..];
            got = if g.starts_with("zeros") {
                "zeros"
            } else if g.starts_with("buffer untouched") {
                "untouched"
            } else if g.starts_with("uninit") {
                "poison"
            } else if g.starts_with("torn") {
                "torn"
            } else if g.starts_with("tag") {
                "other-data"
            } else {
                "foreign"
            };
        }
    }
    format!("expected-{}-got-{}", exp, got)
}

impl Scenario for SeqScenario {
    fn name(&self) -> String {
        format!("{}/{}", self.img.name, self.cfg_name)
    }
    fn alphabet(&self) -> Vec<Op> {
        self.alphabet.clone()
    }

    fn eval(&self, hist: &[Op]) -> Eval {
        let mut ev = Eval { digest: 0, violations: vec![], prune: false, counters: [0; 8], outcome: 0 };
        let o = &self.oracles;
        let mut w = match self.new_world() {
            Ok(w) => w,
            Err(e) => {
                ev.violations.push(self.viol("C01", format!("open-failed:{}", err_category(&e)), e, &[]));
                ev.prune = true;
                return ev;
            }
        };
        let (prefix, last) = hist.split_at(hist.len() - 1);
        let last = &last[0];
        for op in prefix {
            let _ = w.step(op);
        }
        // C05 bookkeeping: value of every block at the last completed Sync before the last op
        let mut synced: Option<Vec<u64>> = None;
        let mut sync_pos = 0usize;
        if o.c05 {
            // recompute by walking a RefDisk (cheap)
            let mut rd = self.img.rd.clone();
            for (i, op) in prefix.iter().enumerate() {
                match op {
                    Op::Write { off, len, tag } => rd.write(*off, *len, *tag),
                    Op::Discard { off, len } => rd.discard(*off, *len),
                    Op::Sync => {
                        synced = Some(rd.blocks.clone());
                        sync_pos = i + 1;
                    }
                    _ => {}
                }
            }
        }
        let log_start = w.sim.borrow().reqs.len();
        let expect_before: Option<Vec<u64>> = match last {
            Op::Read { off, len } => Some(w.expect(*off, *len)),
            _ => None,
        };
        let res = w.step(last);
        let mut oh = std::collections::hash_map::DefaultHasher::new();
        res.hash(&mut oh);
        op_kind(last).hash(&mut oh);
        ev.counters[0] = (w.sim.borrow().reqs.len() - log_start) as u64;

        // ---- result oracle (C01) ----
        if let Some(p) = &res.panic {
            ev.violations.push(self.viol(
                "C01",
                format!("panic:{}:{}", op_kind(last), err_category(p)),
                format!("{} panicked: {}", last.short(), p),
                hist,
            ));
            ev.prune = true;
        } else if !res.ok {
            ev.violations.push(self.viol(
                "C01",
                format!("op-failed:{}:{}", op_kind(last), err_category(res.err.as_deref().unwrap_or(""))),
                format!("{} returned {}", last.short(), res.short()),
                hist,
            ));
            ev.prune = true;
        } else if let Op::Read { off: _, len } = last {
            if res.count != *len {
                ev.violations.push(self.viol(
                    "C01",
                    "read-result:short-read".into(),
                    format!("{} returned Ok({})", last.short(), res.count),
                    hist,
                ));
            } else {
                let exp = expect_before.unwrap();
                for (i, (g, e)) in res.words.iter().zip(exp.iter()).enumerate() {
                    if *g != Some(*e) {
                        ev.violations.push(self.viol(
                            "C01",
                            format!(
                                "read-result:expected-{}-got-{}",
                                if *e == 0 { "zeros" } else { "data" },
                                classify_word(*g)
                            ),
                            format!(
                                "{} block {}: expected {} got {}",
                                last.short(),
                                i,
                                describe_word(Some(*e)),
                                describe_word(*g)
                            ),
                            hist,
                        ));
                        break;
                    }
                }
            }
        }

        let op_broken = res.panic.is_some();
        // ---- C16: every request of this transition is block aligned ----
        if o.c16 {
            let bs = 1u64 << w.cur_cfg().bs_bits;
            let s = w.sim.borrow();
            for r in s.reqs[log_start..].iter() {
                let mut bad = vec![];
                if r.kind == Kind::Sync {
                    continue;
                }
                if r.off % bs != 0 {
                    bad.push("offset");
                }
                if r.kind.len() as u64 % bs != 0 {
                    bad.push("length");
                }
                if matches!(r.kind, Kind::Read { .. } | Kind::Write { .. }) && r.buf_addr as u64 % bs != 0 {
                    bad.push("buffer");
                }
                if !bad.is_empty() {
                    let region = if r.off == 0 { "header" } else { "other" };
                    ev.violations.push(self.viol(
                        "C16",
                        format!("unaligned:{}:{}:{}:dev{}:{}", r.kind.short().chars().next().unwrap(), bad.join("+"), region, r.dev, op_kind(last)),
                        format!(
                            "request {} @{:#x} len {} buf {:#x} not aligned to block size {} ({})",
                            r.kind.short(),
                            r.off,
                            r.kind.len(),
                            r.buf_addr,
                            bs,
                            bad.join("+")
                        ),
                        hist,
                    ));
                }
            }
        }
        // ---- C10: read-only devices of the chain see reads only ----
        if o.c10 {
            let s = w.sim.borrow();
            for r in s.reqs[log_start..].iter() {
                if r.dev > 0 && r.kind.is_modifying() {
                    ev.violations.push(self.viol(
                        "C10",
                        format!("backing-modified:{}:{}", r.kind.short().chars().next().unwrap(), op_kind(last)),
                        format!("read-only backing device {} received {} @{:#x}", r.dev, r.kind.short(), r.off),
                        hist,
                    ));
                }
            }
        }

        // ---- digest before any perturbing oracle ----
        ev.digest = w.digest(o.c04 || o.c05);
        if w.dev.is_none() || op_broken {
            ev.prune = true;
            ev.outcome = oh.finish();
            return ev;
        }

        // ---- C18: flag false => file and memory agree ----
        if o.c18 && !w.dev().need_flush_meta() {
            let st = w.dev().verif_dump_state();
            let dirty = st.l2_slices.iter().filter(|s| s.dirty).count()
                + st.rb_slices.iter().filter(|s| s.dirty).count()
                + st.l1_dirty_blocks.len()
                + st.reftable_dirty_blocks.len();
            if dirty != 0 {
                ev.violations.push(self.viol(
                    "C18",
                    format!("flag-clear-but-dirty:{}", op_kind(last)),
                    format!("need_flush_meta()==false with {} dirty slices/blocks in RAM", dirty),
                    hist,
                ));
            }
            match self.reopen_check(&w, w.cur_cfg(), self.full_sweep) {
                Ok(m) => {
                    if let Some(m) = m.first() {
                        ev.violations.push(self.viol(
                            "C18",
                            format!("flag-clear-reopen-differs:{}:{}", op_kind(last), mismatch_class(m)),
                            format!("need_flush_meta()==false but a device opened on the file differs: {}", m.what),
                            hist,
                        ));
                    }
                }
                Err(e) => ev.violations.push(self.viol(
                    "C18",
                    format!("flag-clear-reopen-failed:{}", err_category(&e)),
                    e,
                    hist,
                )),
            }
            let rep = check_image(&w.sim.borrow().files[0]);
            if let Some((c, d)) = rep.first_problem(false) {
                ev.violations.push(self.viol("C18", format!("flag-clear-unsafe-image:{}:{}", c, op_kind(last)), d, hist));
            }
        }

        // ---- C02 / C03: after a successful flushing operation ----
        if res.ok && last.is_flushing() {
            if o.c02 {
                for (nm, cfg) in [("same", w.cur_cfg().clone()), ("alt", if w.using_alt { self.cfg.clone() } else { self.alt.clone() })] {
                    match self.reopen_check(&w, &cfg, self.full_sweep) {
                        Ok(m) => {
                            if let Some(m) = m.first() {
                                ev.violations.push(self.viol(
                                    "C02",
                                    format!("reopen-differs:{}:{}:{}", nm, op_kind(last), mismatch_class(m)),
                                    format!("after {} a device opened on the file ({} parameters) differs: {}", last.short(), nm, m.what),
                                    hist,
                                ));
                                ev.prune = true;
                                break;
                            }
                        }
                        Err(e) => {
                            ev.violations.push(self.viol("C02", format!("reopen-failed:{}:{}", nm, err_category(&e)), e, hist));
                            ev.prune = true;
                            break;
                        }
                    }
                }
            }
            if o.c03 {
                let rep = check_image(&w.sim.borrow().files[0]);
                if let Some((c, d)) = rep.first_problem(true) {
                    ev.violations.push(self.viol("C03", format!("checker:{}:{}", c, op_kind(last)), d, hist));
                    if c != "leak" {
                        ev.prune = true;
                    }
                }
            }
        }

        // ---- C04 / C05: crash images of the windows this transition touched ----
        if o.c04 || o.c05 {
            self.crash_oracle(&w, hist, synced.as_deref(), sync_pos, &mut ev);
        }

        // ---- C01 sweep (perturbs caches; the world is dropped afterwards) ----
        if o.c01 || o.c02 || o.c03 || o.c18 {
            let bs = 1usize << w.cur_cfg().bs_bits;
            let ms = sweep(w.dev(), &w.rd, bs, self.full_sweep);
            if let Some(m) = ms.first() {
                let cl = (m.off as usize) / w.rd.cs;
                let _ = cl;
                ev.violations.push(self.viol(
                    "C01",
                    format!("sweep:{}:{}:{}", m.shape, op_kind(last), mismatch_class(m)),
                    format!("after {}: read_at({:#x},{}) [{} sweep]: {}", last.short(), m.off, m.len, m.shape, m.what),
                    hist,
                ));
                ev.prune = true;
            }
        }
        ev.outcome = oh.finish();
        ev
    }
}

impl SeqScenario {
    fn crash_oracle(&self, w: &World, hist: &[Op], synced: Option<&[u64]>, sync_pos: usize, ev: &mut Eval) {
        let o = &self.oracles;
        let last_idx = w.op_idx;
        let s = w.sim.borrow();
        let wins = crash::windows(&s, 0);
        let last = &hist[hist.len() - 1];
        // the crash point right after a successful sync: nothing in flight, the file is
        // the durable image and every block must read its synced value
        if o.c05 && matches!(last, Op::Sync) {
            ev.counters[2] += 1;
            let img = s.files[0].clone();
            let mut h = std::collections::hash_map::DefaultHasher::new();
            img.hash(&mut h);
            w.rd.blocks.hash(&mut h);
            0xC05u32.hash(&mut h);
            if self.crash_seen.lock().unwrap().insert(h.finish()) {
                ev.counters[3] += 1;
                if let Some((c, d)) = self.c05_check(w, &img, &w.rd.blocks, &[]) {
                    ev.violations.push(self.viol(
                        "C05",
                        format!("crash-right-after-sync:{}", c),
                        format!("crash right after {} returned: {}", last.short(), d),
                        hist,
                    ));
                }
            }
        }
        for win in wins.iter().filter(|x| x.ops.contains(&last_idx)) {
            ev.counters[1] += 1;
            let mut bad04: Option<(String, String)> = None;
            let mut bad05: Option<(String, String)> = None;
            let mut local_new = 0u64;
            let kinds_in_window: Vec<&'static str> = {
                let mut k: Vec<&'static str> =
                    win.ops.iter().filter(|&&i| i >= 1 && i <= hist.len()).map(|&i| op_kind(&hist[i - 1])).collect();
                k.sort();
                k.dedup();
                k
            };
            let st = win.enumerate(self.crash_cap, self.crash_k, |img, _choice| {
                let mut h = std::collections::hash_map::DefaultHasher::new();
                img.hash(&mut h);
                // C05 verdict depends on the sync point too
                if o.c05 {
                    synced.map(|s| s.len()).hash(&mut h);
                    if let Some(sv) = synced {
                        sv.hash(&mut h);
                    }
                    hist[sync_pos..].hash(&mut h);
                }
                let key = h.finish();
                if !self.crash_seen.lock().unwrap().insert(key) {
                    return true;
                }
                local_new += 1;
                if o.c04 && bad04.is_none() {
                    let rep = check_image(img);
                    if let Some((c, d)) = rep.first_problem(false) {
                        bad04 = Some((c, d));
                    }
                }
                if o.c05 && bad05.is_none() {
                    if let Some(sv) = synced {
                        bad05 = self.c05_check(w, img, sv, &hist[sync_pos..]);
                    }
                }
                if self.crash_continue > 0 && bad04.is_none() {
                    if let Some(x) = self.continue_after_crash(w, img) {
                        bad04 = Some(x);
                    }
                }
                true
            });
            ev.counters[2] += st.images;
            ev.counters[3] += local_new;
            if !st.exhaustive {
                ev.counters[4] += 1;
            }
            if let Some((c, d)) = bad04 {
                // discriminating feature for under-counted clusters: is the cluster free or
                // allocated in RAM (cache, else volatile file) at the end of this transition?
                let c = if c == "under" || c == "double_ref" {
                    // Discriminating feature: was the under-counted host cluster released by a
                    // discard of this history (its punch is in the log) with no complete
                    // metadata flush between that discard and the operation that crashed?
                    let cl = d.split("host cluster 0x").nth(1).and_then(|x| x.split(' ').next()).and_then(|x| u64::from_str_radix(x, 16).ok());
                    let cb = self.img.cluster_bits;
                    let mut freed_at: Option<usize> = None;
                    if let Some(cl) = cl {
                        for r in s.reqs.iter() {
                            if r.dev != 0 || r.op_idx == 0 || r.op_idx > hist.len() {
                                continue;
                            }
                            if let (Kind::Zero { len }, Op::Discard { .. }) = (&r.kind, &hist[r.op_idx - 1]) {
                                let c0 = r.off >> cb;
                                let c1 = (r.off + *len as u64 - 1) >> cb;
                                if cl >= c0 && cl <= c1 {
                                    freed_at = Some(r.op_idx);
                                }
                            }
                        }
                    }
                    let flushed_since = freed_at.map_or(false, |f| (f..hist.len() - 1).any(|j| hist[j].is_flushing()));
                    match freed_at {
                        Some(_) if !flushed_since => format!("cluster-freed-by-discard-not-yet-flushed:{}", c),
                        _ => format!("{}:last={}:window={}", c, op_kind(last), kinds_in_window.join("+")),
                    }
                } else {
                    format!("{}:last={}:window={}", c, op_kind(last), kinds_in_window.join("+"))
                };
                ev.violations.push(self.viol(
                    "C04",
                    format!("crash:{}", c),
                    format!("crash inside {} leaves an unsafe image: {}", last.short(), d),
                    hist,
                ));
            }
            if let Some((c, d)) = bad05 {
                ev.violations.push(self.viol(
                    "C05",
                    format!("crash:{}:last={}:window={}", c, op_kind(last), kinds_in_window.join("+")),
                    format!("crash inside {}: {}", last.short(), d),
                    hist,
                ));
            }
        }
    }

    /// "usable image": open the crash image, write fresh clusters until the allocator has
    /// crossed the next refcount-block boundary, flush, and let the checker and a read-back judge
    fn continue_after_crash(&self, w: &World, img: &[u8]) -> Option<(String, String)> {
        let cs = w.rd.cs as u64;
        let mut files = w.sim.borrow().files.clone();
        files[0] = img.to_vec();
        let sim2 = Sim::new(files);
        let dev2 = match open_chain(&sim2, 0, &self.cfg, false) {
            Ok(d) => d,
            Err(e) => return Some((format!("continue:open-failed:{}", err_category(&e)), format!("crash image cannot be opened: {}", e))),
        };
        // fresh guest clusters from the top of the virtual disk downwards
        let top = w.rd.vsize / cs;
        let mut written = vec![];
        for k in 0..self.crash_continue as u64 {
            let g = top - 1 - k;
            let buf = make_write_buf(cs as usize, 0x700 + k as u32);
            let r = std::panic::catch_unwind(std::panic::AssertUnwindSafe(|| block_on(dev2.write_at(&buf[..cs as usize], g * cs))));
            match r {
                Ok(Ok(())) => written.push((g, 0x700 + k as u32)),
                Ok(Err(e)) => return Some((format!("continue:write-failed:{}", err_category(&format!("{e:?}"))), format!("write #{} after the crash failed: {e:?}", k))),
                Err(p) => return Some((format!("continue:write-panic:{}", err_category(&panic_msg(p))), format!("write #{} after the crash panicked", k))),
            }
        }
        match std::panic::catch_unwind(std::panic::AssertUnwindSafe(|| block_on(dev2.flush_meta()))) {
            Ok(Ok(())) => {}
            Ok(Err(e)) => return Some(("continue:flush-failed".into(), format!("flush_meta after the crash failed: {e:?}"))),
            Err(p) => return Some(("continue:flush-panic".into(), panic_msg(p))),
        }
        let rep = check_image(&sim2.borrow().files[0]);
        if let Some((c, d)) = rep.first_problem(false) {
            return Some((format!("continue:image-unsafe:{}", c), format!("after re-opening the crash image, writing {} fresh clusters and flush_meta: {}", self.crash_continue, d)));
        }
        for (g, tag) in written {
            let mut b = qcow2_rs::helpers::Qcow2IoBuf::<u8>::new(cs as usize);
            match block_on(dev2.read_at(&mut b, g * cs)) {
                Ok(n) if n == cs as usize => {
                    let got = decode_read(&b);
                    if let Some(i) = got.iter().enumerate().position(|(i, x)| *x != Some(spec::word(tag, i as u32))) {
                        return Some((
                            format!("continue:data-corrupted:got-{}", classify_word(got[i])),
                            format!("guest cluster {:#x} written after the crash reads {} at block {}", g * cs, describe_word(got[i]), i),
                        ));
                    }
                }
                r => return Some(("continue:read-failed".into(), format!("{:?}", r.map_err(|e| format!("{e:?}"))))),
            }
        }
        None
    }

    /// open the crash image with the library and compare every synced block
    fn c05_check(&self, w: &World, img: &[u8], synced: &[u64], since: &[Op]) -> Option<(String, String)> {
        // allowed values per block: synced value + values of operations issued after the sync
        let cs = w.rd.cs;
        let mut files = w.sim.borrow().files.clone();
        files[0] = img.to_vec();
        let sim2 = Sim::new(files);
        let dev2 = match open_chain(&sim2, 0, &self.cfg, false) {
            Ok(d) => d,
            Err(e) => return Some((format!("open-failed:{}", err_category(&e)), format!("crash image cannot be opened: {}", e))),
        };
        let nblk = synced.len();
        let bpc = cs / BLK;
        let mut c = 0usize;
        while c * bpc < nblk {
            let b0 = c * bpc;
            let b1 = ((c + 1) * bpc).min(nblk);
            c += 1;
            if synced[b0..b1].iter().all(|x| *x == 0) {
                continue;
            }
            let len = (b1 - b0) * BLK;
            let mut buf = qcow2_rs::helpers::Qcow2IoBuf::<u8>::new(len);
            for x in buf.iter_mut() {
                *x = 0x5a;
            }
            let r = std::panic::catch_unwind(std::panic::AssertUnwindSafe(|| {
                crate::world::block_on(dev2.read_at(&mut buf, (b0 * BLK) as u64))
            }));
            let got = match r {
                Ok(Ok(n)) if n == len => decode_read(&buf),
                Ok(Ok(n)) => return Some(("short-read".into(), format!("read of synced cluster {:#x} returned Ok({})", b0 * BLK, n))),
                Ok(Err(e)) => return Some((format!("read-error:{}", err_category(&format!("{e:?}"))), format!("read of synced cluster {:#x} failed: {e:?}", b0 * BLK))),
                Err(e) => return Some(("panic".into(), format!("read of synced cluster panicked: {}", panic_msg(e)))),
            };
            for (i, g) in got.iter().enumerate() {
                let b = b0 + i;
                if synced[b] == 0 {
                    continue;
                }
                if *g == Some(synced[b]) {
                    continue;
                }
                // later operations touching this block
                let goff = (b * BLK) as u64;
                let mut ok = false;
                for op in since {
                    match op {
                        Op::Write { off, len, tag } => {
                            if goff >= *off && goff < *off + *len as u64 {
                                let bi = ((goff - *off) as usize) / BLK;
                                if *g == Some(spec::word(*tag, bi as u32)) {
                                    ok = true;
                                }
                            }
                        }
                        Op::Discard { off, len } => {
                            let end = off.saturating_add(*len).min(w.rd.vsize);
                            let start = (*off + cs as u64 - 1) / cs as u64 * cs as u64;
                            let stop = end / cs as u64 * cs as u64;
                            if goff >= start && goff < stop && *g == Some(0) {
                                ok = true;
                            }
                        }
                        _ => {}
                    }
                }
                if !ok {
                    let discarded_since = since.iter().any(|op| match op {
                        Op::Discard { off, len } => {
                            let end = off.saturating_add(*len).min(w.rd.vsize);
                            let start = (*off + cs as u64 - 1) / cs as u64 * cs as u64;
                            let stop = end / cs as u64 * cs as u64;
                            goff >= start && goff < stop
                        }
                        _ => false,
                    });
                    return Some((
                        format!("synced-block-lost:got-{}{}", classify_word(*g), if discarded_since { ":block-discarded-since-sync" } else { "" }),
                        format!(
                            "synced guest block {:#x} held {} at the sync point but reads {} after the crash",
                            goff,
                            describe_word(Some(synced[b])),
                            describe_word(*g)
                        ),
                    ));
                }
            }
        }
        None
    }
}
