//! HIST — explicit-state breadth-first exploration of operation histories.
//!
//! A state is the history that reaches it. Every transition re-builds a fresh
//! simulated host from the initial image and replays the history on the real
//! code; states are merged by a digest of (files, in-RAM metadata, RefDisk).
use crate::report::Violation;
use crate::world::Op;
use rayon::prelude::*;
use std::collections::HashSet;
use std::time::{Duration, Instant};

pub struct Eval {
    pub digest: u64,
    pub violations: Vec<Violation>,
    /// state oracle failed: do not expand below this state
    pub prune: bool,
    /// auxiliary counters (crash images checked, requests seen, ...)
    pub counters: [u64; 8],
    /// distinct-outcome fingerprint of this transition (for "nontrivial" counting)
    pub outcome: u64,
}

pub trait Scenario: Sync {
    fn name(&self) -> String;
    fn alphabet(&self) -> Vec<Op>;
    /// Replay `hist` (non-empty) on a fresh world, check the oracles on its
    /// last transition and return the digest of the reached state.
    fn eval(&self, hist: &[Op]) -> Eval;
}

#[derive(Default, Debug, Clone)]
pub struct BfsStats {
    pub states: u64,
    pub transitions: u64,
    pub depth_completed: usize,
    pub depth_target: usize,
    pub capped: bool,
    pub pruned: u64,
    pub per_level: Vec<(usize, u64, u64)>, // depth, transitions, new states
    pub counters: [u64; 8],
    pub distinct_outcomes: u64,
    pub samples: Vec<String>,
    pub replayed: u64,
    pub nondeterministic: Vec<String>,
}

pub struct BfsLimits {
    pub depth: usize,
    pub max_states: u64,
    pub deadline: Instant,
}

pub fn bfs(sc: &dyn Scenario, lim: &BfsLimits, violations: &mut Vec<Violation>) -> BfsStats {
    let alphabet = sc.alphabet();
    let mut stats = BfsStats { depth_target: lim.depth, ..Default::default() };
    let mut seen: HashSet<u64> = HashSet::new();
    let mut outcomes: HashSet<u64> = HashSet::new();
    let mut frontier: Vec<Vec<Op>> = vec![vec![]];
    let mut first: Vec<(Vec<Op>, u64, u64)> = vec![];
    stats.states = 1;
    for depth in 1..=lim.depth {
        if frontier.is_empty() {
            stats.depth_completed = lim.depth; // state space exhausted
            break;
        }
        if Instant::now() > lim.deadline {
            stats.capped = true;
            break;
        }
        let work: Vec<(usize, usize)> =
            (0..frontier.len()).flat_map(|i| (0..alphabet.len()).map(move |j| (i, j))).collect();
        let deadline = lim.deadline;
        let results: Vec<Option<Eval>> = work
            .par_iter()
            .map(|&(i, j)| {
                if Instant::now() > deadline {
                    return None;
                }
                let mut h = frontier[i].clone();
                h.push(alphabet[j].clone());
                let _g = crate::watchdog::enter(|| format!("{}: {}", sc.name(), crate::world::hist_str(&h)));
                Some(sc.eval(&h))
            })
            .collect();
        let mut next = vec![];
        let mut level_trans = 0u64;
        let mut level_new = 0u64;
        let mut incomplete = false;
        for (k, r) in results.into_iter().enumerate() {
            let r = match r {
                Some(r) => r,
                None => {
                    incomplete = true;
                    continue;
                }
            };
            level_trans += 1;
            for (a, b) in stats.counters.iter_mut().zip(r.counters.iter()) {
                *a += *b;
            }
            outcomes.insert(r.outcome);
            if first.len() < 64 && k % 7 == 0 {
                let (i, j) = work[k];
                let mut h = frontier[i].clone();
                h.push(alphabet[j].clone());
                first.push((h, r.digest, r.outcome));
            }
            if !r.violations.is_empty() {
                for v in r.violations {
                    if violations.iter().filter(|x| x.class == v.class && x.prop == v.prop).count() < 20 {
                        violations.push(v);
                    }
                }
            }
            if r.prune {
                stats.pruned += 1;
                continue;
            }
            if seen.insert(r.digest) {
                level_new += 1;
                let (i, j) = work[k];
                let mut h = frontier[i].clone();
                h.push(alphabet[j].clone());
                if stats.samples.len() < 6 && (k % 97 == 0 || stats.samples.is_empty()) {
                    stats.samples.push(crate::world::hist_str(&h));
                }
                next.push(h);
            }
        }
        stats.transitions += level_trans;
        stats.states += level_new;
        stats.per_level.push((depth, level_trans, level_new));
        if incomplete {
            stats.capped = true;
            break;
        }
        stats.depth_completed = depth;
        if stats.states > lim.max_states {
            stats.capped = true;
            break;
        }
        frontier = next;
    }
    stats.distinct_outcomes = outcomes.len() as u64;
    // determinism: replay the first transitions and require identical digests and outcomes
    for (h, d, o) in first.iter() {
        let r = sc.eval(h);
        stats.replayed += 1;
        // the digest of a state that is not expanded (an operation panicked or deadlocked half-way) is irrelevant
        if (!r.prune && r.digest != *d) || r.outcome != *o {
            stats.nondeterministic.push(format!("{} [digest {:x} vs {:x}, outcome {:x} vs {:x}]", crate::world::hist_str(h), d, r.digest, o, r.outcome));
        }
    }
    if !stats.nondeterministic.is_empty() {
        // never a verdict: the harness does not own some source of nondeterminism
        println!("machinery failure: replaying {} gave a different digest/outcome: {:?}", sc.name(), stats.nondeterministic);
        std::process::exit(2);
    }
    stats
}

pub fn deadline_in(secs: u64) -> Instant {
    Instant::now() + Duration::from_secs(secs)
}
