//! SCHED — stateless exploration of all interleavings of concurrent API calls
//! under a deterministic single-threaded executor that owns both kinds of
//! choice: which ready task is polled and which outstanding backend request
//! completes next. Deviation (preemption) bounded, iterated 0,1,2,...
use crate::images::ImageSet;
use crate::simio::{Mode, Sim};
use crate::world::*;
use std::cell::{Cell, RefCell};
use std::future::Future;
use std::pin::Pin;
use std::rc::Rc;
use std::sync::{Arc, Mutex};
use std::task::{Context, Poll, Wake, Waker};

struct TaskWaker {
    id: usize,
    flags: Arc<Mutex<Vec<bool>>>,
}
impl Wake for TaskWaker {
    fn wake(self: Arc<Self>) {
        self.flags.lock().unwrap()[self.id] = true;
    }
    fn wake_by_ref(self: &Arc<Self>) {
        self.flags.lock().unwrap()[self.id] = true;
    }
}

#[derive(Clone, Debug)]
pub struct OpRecord {
    pub task: usize,
    pub op: Op,
    pub res: OpResult,
    pub inv: u64,
    pub resp: u64,
    pub finished: bool,
}

thread_local! {
    /// fail the k-th backend request submitted in the concurrent phase (faulted concurrent executions)
    pub static FAIL_KTH: std::cell::Cell<Option<usize>> = const { std::cell::Cell::new(None) };
    /// a second failing request of the concurrent phase (only together with FAIL_KTH)
    pub static FAIL_KTH2: std::cell::Cell<Option<usize>> = const { std::cell::Cell::new(None) };
}

pub struct Execution {
    pub records: Vec<OpRecord>,
    pub deadlock: bool,
    pub livelock: bool,
    pub blocked_tasks: Vec<usize>,
    pub panic: Option<String>,
    /// (number of enabled actions, last-run task still enabled) per choice point
    pub points: Vec<(usize, bool)>,
    pub choices: Vec<usize>,
    pub steps: usize,
    pub world: World,
    /// first request id of the concurrent phase
    pub log_start: usize,
    /// (step, task, what) for replay output
    pub trace: Vec<String>,
}

#[derive(Clone)]
pub struct SchedScenario {
    pub name: String,
    pub img: ImageSet,
    pub cfg: DevCfg,
    pub cfg_name: String,
    pub setup: Vec<Op>,
    pub tasks: Vec<Vec<Op>>,
    /// complete-then-poll as one action (false: two separate actions)
    pub fused: bool,
}

impl SchedScenario {
    pub fn describe(&self) -> String {
        format!(
            "{} [{} {}] setup: {} | {}",
            self.name,
            self.img.name,
            self.cfg_name,
            hist_str(&self.setup),
            self.tasks.iter().enumerate().map(|(i, t)| format!("T{}: {}", i, hist_str(t))).collect::<Vec<_>>().join(" || ")
        )
    }

    pub fn to_json(&self, choices: &[usize]) -> serde_json::Value {
        serde_json::json!({
            "engine": "sched",
            "scenario": self.name,
            "image": self.img.name,
            "cfg": self.cfg.describe(), "cfg_json": self.cfg.to_json(),
            "cfg_name": self.cfg_name,
            "salt": qcow2_rs::verif::ORDER_SALT.load(std::sync::atomic::Ordering::Relaxed),
            "setup": self.setup.iter().map(|o| o.to_json()).collect::<Vec<_>>(),
            "tasks": self.tasks.iter().map(|t| t.iter().map(|o| o.to_json()).collect::<Vec<_>>()).collect::<Vec<_>>(),
            "fused": self.fused,
            "schedule": choices,
            "describe": self.describe(),
        })
    }

    /// Run one execution: replay `prefix` at the first choice points, take action 0 afterwards.
    pub fn execute(&self, prefix: &[usize]) -> Result<Execution, String> {
        let mut world = World::new(self.img.files.clone(), self.img.rd.clone(), &self.cfg, &self.cfg)?;
        for op in self.setup.iter() {
            let r = world.step(op);
            if !r.ok {
                return Err(format!("setup operation {} failed: {}", op.short(), r.short()));
            }
        }
        let sim = world.sim.clone();
        let log_start = sim.borrow().reqs.len();
        sim.borrow_mut().mode = Mode::Scheduled;
        if let Some(k) = FAIL_KTH.with(|c| c.get()) {
            sim.borrow_mut().fault.fail_ids = [log_start + k].into_iter().collect();
            if let Some(k2) = FAIL_KTH2.with(|c| c.get()) {
                sim.borrow_mut().fault.fail_ids.insert(log_start + k2);
            }
        }
        let dev: Rc<Dev> = Rc::new(world.dev.take().unwrap());
        let n = self.tasks.len();
        let step_ctr = Rc::new(Cell::new(0u64));
        // invocation / response instants: one global event counter (only one task runs at a time, so the
        // order of the events is the real-time order; an operation may be invoked and respond within
        // one executor step)
        let ev_ctr = Rc::new(Cell::new(0u64));
        let records: Rc<RefCell<Vec<OpRecord>>> = Rc::new(RefCell::new(vec![]));
        let vsize = world.rd.vsize;
        let mut futs: Vec<Option<Pin<Box<dyn Future<Output = ()>>>>> = Vec::new();
        for (ti, ops) in self.tasks.iter().enumerate() {
            let dev = dev.clone();
            let ops = ops.clone();
            let records = records.clone();
            let ev_ctr = ev_ctr.clone();
            futs.push(Some(Box::pin(async move {
                for op in ops.iter() {
                    let idx = {
                        let mut r = records.borrow_mut();
                        r.push(OpRecord {
                            task: ti,
                            op: op.clone(),
                            res: OpResult { ok: false, err: None, panic: None, count: 0, words: vec![], alloc: None },
                            inv: {
                                ev_ctr.set(ev_ctr.get() + 1);
                                ev_ctr.get()
                            },
                            resp: u64::MAX,
                            finished: false,
                        });
                        r.len() - 1
                    };
                    let res = run_op_async(&dev, op, vsize).await;
                    let mut r = records.borrow_mut();
                    r[idx].res = res;
                    ev_ctr.set(ev_ctr.get() + 1);
                    r[idx].resp = ev_ctr.get();
                    r[idx].finished = true;
                }
            })));
        }
        let flags = Arc::new(Mutex::new(vec![true; n]));
        let wakers: Vec<Waker> = (0..n).map(|i| Waker::from(Arc::new(TaskWaker { id: i, flags: flags.clone() }))).collect();
        let mut last: Option<usize> = None;
        let mut points = vec![];
        let mut choices = vec![];
        let mut steps = 0usize;
        let mut deadlock = false;
        let mut livelock = false;
        let mut panic: Option<String> = None;
        let mut trace: Vec<String> = vec![];
        let max_steps = 4000;
        #[derive(Clone, Copy, PartialEq)]
        enum Act {
            Poll(usize),
            Complete(usize, usize),
        }
        loop {
            let mut acts: Vec<Act> = vec![];
            let mut order: Vec<usize> = (0..n).collect();
            if let Some(l) = last {
                order.retain(|&x| x != l);
                order.insert(0, l);
            }
            {
                let s = sim.borrow();
                let fl = flags.lock().unwrap();
                for &t in &order {
                    if futs[t].is_none() {
                        continue;
                    }
                    if fl[t] {
                        acts.push(Act::Poll(t));
                    }
                    for r in s.reqs[log_start..].iter() {
                        if r.task == t && r.complete_seq.is_none() {
                            acts.push(Act::Complete(t, r.id));
                        }
                    }
                }
            }
            if acts.is_empty() {
                if futs.iter().any(|f| f.is_some()) {
                    deadlock = true;
                }
                break;
            }
            let last_enabled = last.map_or(false, |l| {
                acts.iter().any(|a| match a {
                    Act::Poll(t) | Act::Complete(t, _) => *t == l,
                })
            });
            let c = if acts.len() > 1 {
                let i = points.len();
                points.push((acts.len(), last_enabled));
                let c = if i < prefix.len() { prefix[i] } else { 0 };
                if c >= acts.len() {
                    return Err(format!("replay divergence at choice point {}: {} >= {}", i, c, acts.len()));
                }
                choices.push(c);
                c
            } else {
                0
            };
            let act = acts[c];
            step_ctr.set(step_ctr.get() + 1);
            let t = match act {
                Act::Poll(t) => {
                    trace.push(format!("step {}: poll T{} ({} actions enabled)", step_ctr.get(), t, acts.len()));
                    t
                }
                Act::Complete(t, id) => {
                    sim.borrow_mut().complete(id);
                    trace.push(format!("step {}: complete #{} and poll T{} ({} actions enabled)", step_ctr.get(), id, t, acts.len()));
                    t
                }
            };
            let do_poll = match act {
                Act::Poll(_) => true,
                Act::Complete(..) => self.fused,
            };
            if do_poll {
                flags.lock().unwrap()[t] = false;
                sim.borrow_mut().cur_task = t;
                let mut cx = Context::from_waker(&wakers[t]);
                let fut = futs[t].as_mut().unwrap();
                let r = std::panic::catch_unwind(std::panic::AssertUnwindSafe(|| fut.as_mut().poll(&mut cx)));
                match r {
                    Ok(Poll::Ready(())) => futs[t] = None,
                    Ok(Poll::Pending) => {}
                    Err(e) => {
                        panic = Some(panic_msg(e));
                        // the task is gone
                        std::mem::forget(futs[t].take());
                        break;
                    }
                }
            }
            last = Some(t);
            steps += 1;
            if steps > max_steps {
                livelock = true;
                break;
            }
        }
        let blocked_tasks: Vec<usize> = (0..n).filter(|&t| futs[t].is_some()).collect();
        let stuck = deadlock || livelock || panic.is_some();
        if stuck {
            // lock guards inside the abandoned futures must not run their hand-off logic
            for f in futs.into_iter() {
                std::mem::forget(f);
            }
            std::mem::forget(dev.clone());
        } else {
            drop(futs);
        }
        let recs = records.borrow().clone();
        sim.borrow_mut().mode = Mode::Immediate;
        // the backend heals before the end state is judged
        sim.borrow_mut().fault = Default::default();
        if !stuck {
            match Rc::try_unwrap(dev) {
                Ok(d) => world.dev = Some(d),
                Err(_) => return Err("device still shared after all tasks finished".into()),
            }
        }
        // apply acknowledged operations to the RefDisk is the oracle's business (order matters)
        Ok(Execution {
            records: recs,
            deadlock,
            livelock,
            blocked_tasks,
            panic,
            points,
            choices,
            steps,
            world,
            log_start,
            trace,
        })
    }
}

#[derive(Default, Debug, Clone)]
pub struct ExploreStats {
    pub executions: u64,
    pub choice_points_max: usize,
    pub bound_completed: i64,
    pub exhausted: bool,
    pub capped: bool,
    pub distinct_outcomes: u64,
    pub steps: u64,
}

/// Explore all schedules with at most `bound` deviations. `visit` is called for
/// every execution and returns an outcome fingerprint.
pub fn explore<F: FnMut(&SchedScenario, Execution) -> u64>(
    sc: &SchedScenario,
    bound: usize,
    max_execs: u64,
    deadline: std::time::Instant,
    mut visit: F,
) -> Result<ExploreStats, String> {
    let mut st = ExploreStats::default();
    let mut outcomes = std::collections::HashSet::new();
    // stack of (prefix, cost of the prefix)
    let mut stack: Vec<Vec<usize>> = vec![vec![]];
    let mut truncated_by_bound = false;
    while let Some(prefix) = stack.pop() {
        if st.executions >= max_execs || std::time::Instant::now() > deadline {
            st.capped = true;
            break;
        }
        let x = sc.execute(&prefix)?;
        st.executions += 1;
        st.steps += x.steps as u64;
        st.choice_points_max = st.choice_points_max.max(x.points.len());
        let points = x.points.clone();
        let choices = x.choices.clone();
        outcomes.insert(visit(sc, x));
        let mut cost = 0usize;
        for i in 0..points.len() {
            if i < prefix.len() {
                if choices[i] != 0 && points[i].1 {
                    cost += 1;
                }
                continue;
            }
            let c = if points[i].1 { cost + 1 } else { cost };
            if c > bound {
                if points[i].0 > 1 {
                    truncated_by_bound = true;
                }
                continue;
            }
            for alt in 1..points[i].0 {
                let mut p = choices[..i].to_vec();
                p.push(alt);
                stack.push(p);
            }
        }
    }
    st.distinct_outcomes = outcomes.len() as u64;
    st.exhausted = !truncated_by_bound && !st.capped;
    st.bound_completed = if st.capped { bound as i64 - 1 } else { bound as i64 };
    Ok(st)
}

/// make a fresh Sim (used by oracles that reopen a copy of the files)
pub fn copy_sim(w: &World) -> Rc<RefCell<Sim>> {
    Sim::new(w.sim.borrow().files.clone())
}
