//! FAULT — a backend failure injected at every single request (and every pair)
//! of every history; the device must report it, stay usable, and a healed
//! flush_meta must bring the file to a state that holds every acknowledged write.
use crate::images::ImageSet;
use crate::report::Violation;
use crate::seq::{err_category, op_kind};
use crate::simio::{Kind, Sim};
use crate::spec::{self, check_image, BLK};
use crate::world::*;
use serde_json::json;

pub struct FaultScenario {
    pub img: ImageSet,
    pub cfg: DevCfg,
    pub cfg_name: String,
    /// also judge every crash state of the windows that follow the first failed request (C04 over
    /// histories in which a request failed)
    pub crash_oracle: bool,
}

#[derive(Default, Clone, Debug)]
pub struct FaultStats {
    pub histories: u64,
    pub runs: u64,
    pub changed_result: u64,
    pub requests: u64,
}

#[derive(Clone, Debug)]
pub enum Plan {
    Ids(Vec<usize>),
    Kind(char),
    PunchUnsupported,
    /// hole punching unsupported and these requests fail (a failing zero-write fallback)
    NoPunchIds(Vec<usize>),
}

impl Plan {
    fn describe(&self) -> String {
        match self {
            Plan::Ids(v) => format!("fail requests {:?}", v),
            Plan::Kind(c) => format!("fail every request of kind {}", c),
            Plan::PunchUnsupported => "hole punch unsupported".into(),
            Plan::NoPunchIds(v) => format!("hole punch unsupported, fail requests {:?}", v),
        }
    }
    fn to_json(&self) -> serde_json::Value {
        match self {
            Plan::Ids(v) => json!({"fail_ids": v}),
            Plan::Kind(c) => json!({"fail_kind": c.to_string()}),
            Plan::PunchUnsupported => json!({"punch_unsupported": true}),
            Plan::NoPunchIds(v) => json!({"punch_unsupported": true, "fail_ids": v}),
        }
    }
}

impl FaultScenario {
    fn viol(&self, class: String, detail: String, hist: &[Op], plan: &Plan) -> Violation {
        Violation {
            prop: "C17".into(),
            class: format!("{}|img={}", class, self.img.kind),
            detail: format!("{} [image {} cfg {} history: {} ; fault: {}]", detail, self.img.name, self.cfg_name, hist_str(hist), plan.describe()),
            replay: json!({
                "engine": "fault", "image": self.img.name, "cfg": self.cfg.describe(), "cfg_json": self.cfg.to_json(), "cfg_name": self.cfg_name,
                "history": hist.iter().map(|o| o.to_json()).collect::<Vec<_>>(), "history_str": hist_str(hist), "fault": plan.to_json(),
            }),
        }
    }

    /// number of backend requests the fault-free run of `hist` issues (after open)
    pub fn count_requests(&self, hist: &[Op]) -> Result<(usize, usize), String> {
        let mut w = World::new(self.img.files.clone(), self.img.rd.clone(), &self.cfg, &self.cfg)?;
        let start = w.sim.borrow().reqs.len();
        for op in hist {
            let _ = w.step(op);
        }
        let n = w.sim.borrow().reqs.len();
        Ok((start, n))
    }

    /// number of requests of the run of `hist` where hole punching is unsupported (fault-free otherwise)
    pub fn count_requests_nopunch(&self, hist: &[Op]) -> Result<(usize, usize), String> {
        let mut w = World::new(self.img.files.clone(), self.img.rd.clone(), &self.cfg, &self.cfg)?;
        w.sim.borrow_mut().fault.punch_unsupported = true;
        let start = w.sim.borrow().reqs.len();
        for op in hist {
            let _ = w.step(op);
        }
        let n = w.sim.borrow().reqs.len();
        Ok((start, n))
    }

    /// a request fails while the device is being opened (qcow2_prep_io), the backend heals and
    /// qcow2_prep_io is called again on the same device: either it fails again or the device
    /// works (reads equal the reference disk, a write + flush leaves a safe image)
    pub fn open_fault_runs(&self) -> (u64, Vec<Violation>) {
        let mut out = vec![];
        let mut runs = 0;
        let plan0 = Plan::Ids(vec![]);
        // fault-free number of open requests
        let nopen = {
            let sim = Sim::new(self.img.files.clone());
            let _ = open_chain(&sim, 0, &self.cfg, false);
            let n = sim.borrow().reqs.len();
            n
        };
        for i in 0..nopen {
            runs += 1;
            let sim = Sim::new(self.img.files.clone());
            sim.borrow_mut().fault.fail_ids = [i].into_iter().collect();
            let plan = Plan::Ids(vec![i]);
            let r = std::panic::catch_unwind(std::panic::AssertUnwindSafe(|| -> Result<Option<Dev>, String> {
                let io = crate::simio::SimIo::new(&sim, 0);
                let params = self.cfg.params(false, false);
                let (dev, _back) = match block_on(qcow2_rs::utils::qcow2_alloc_dev(std::path::Path::new("sim0"), io, &params)) {
                    Ok(x) => x,
                    Err(_) => return Ok(None), // refused at open: fine
                };
                let first = block_on(dev.qcow2_prep_io());
                sim.borrow_mut().fault = Default::default();
                if first.is_ok() {
                    return Ok(Some(dev));
                }
                match block_on(dev.qcow2_prep_io()) {
                    Ok(_) => Ok(Some(dev)),
                    Err(_) => Ok(None), // keeps failing: fine
                }
            }));
            let dev = match r {
                Ok(Ok(Some(d))) => d,
                Ok(Ok(None)) => continue,
                Ok(Err(e)) => {
                    out.push(self.viol(format!("open-fault:error:{}", err_category(&e)), e, &[], &plan));
                    continue;
                }
                Err(p) => {
                    out.push(self.viol(format!("open-fault:panic:{}", err_category(&panic_msg(p))), "panic while opening with a failing request".into(), &[], &plan));
                    continue;
                }
            };
            if self.img.files.len() > 1 {
                continue; // backing chains are opened by the harness itself
            }
            // the device claims to be usable
            let vsize = self.img.rd.vsize;
            let got = crate::lin::read_all(&dev, vsize as usize, 1usize << self.cfg.bs_bits);
            if let Some(b) = (0..self.img.rd.blocks.len()).find(|b| got[*b] != Some(self.img.rd.blocks[*b])) {
                out.push(self.viol(
                    format!("open-fault:retried-open-reads-wrong-data:got-{}", classify_word(got[b])),
                    format!("request {} failed during qcow2_prep_io(), the retried qcow2_prep_io() returned Ok, but guest block {:#x} reads {} instead of {}", i, b * BLK, describe_word(got[b]), describe_word(Some(self.img.rd.blocks[b]))),
                    &[],
                    &plan,
                ));
                continue;
            }
            let mut buf = crate::world::make_write_buf(BLK, 0x7d);
            let wres = std::panic::catch_unwind(std::panic::AssertUnwindSafe(|| {
                let last = (vsize - BLK as u64) / BLK as u64 * BLK as u64;
                let a = block_on(dev.write_at(&buf[..BLK], last));
                let b = block_on(dev.flush_meta());
                (a.is_ok(), b.is_ok())
            }));
            let _ = &mut buf;
            match wres {
                Ok((true, true)) => {
                    if let Some((c, d)) = check_image(&sim.borrow().files[0]).first_problem(false) {
                        out.push(self.viol(format!("open-fault:image-unsafe-after-use:{}", c), format!("request {} failed during qcow2_prep_io(), retried Ok; after one write + flush: {}", i, d), &[], &plan));
                    }
                }
                Ok(_) => out.push(self.viol("open-fault:later-op-failed".into(), format!("request {} failed during qcow2_prep_io(), retried Ok; a write + flush afterwards failed", i), &[], &plan)),
                Err(p) => out.push(self.viol(format!("open-fault:panic-after-open:{}", err_category(&panic_msg(p))), "write + flush after a retried open panicked".into(), &[], &plan)),
            }
        }
        let _ = plan0;
        (runs, out)
    }

    /// per flush operation of the fault-free run: the ids of the write requests it issued (its
    /// write-back batches), for "the whole batch fails together" plans
    pub fn flush_write_ids(&self, hist: &[Op]) -> Vec<Vec<usize>> {
        let mut out = vec![];
        if let Ok(mut w) = World::new(self.img.files.clone(), self.img.rd.clone(), &self.cfg, &self.cfg) {
            for op in hist {
                let before = w.sim.borrow().reqs.len();
                let _ = w.step(op);
                if matches!(op, Op::Flush | Op::Shrink) {
                    let s = w.sim.borrow();
                    let ids: Vec<usize> = s.reqs[before..].iter().filter(|r| matches!(r.kind, Kind::Write { .. })).map(|r| r.id).collect();
                    if ids.len() >= 2 {
                        out.push(ids);
                    }
                }
            }
        }
        out
    }

    pub fn run(&self, hist: &[Op], plan: &Plan, st: &mut FaultStats) -> Vec<Violation> {
        let mut out = vec![];
        st.runs += 1;
        let mut w = match World::new(self.img.files.clone(), self.img.rd.clone(), &self.cfg, &self.cfg) {
            Ok(w) => w,
            Err(e) => return vec![self.viol(format!("open-failed:{}", err_category(&e)), e, hist, plan)],
        };
        {
            let mut s = w.sim.borrow_mut();
            match plan {
                Plan::Ids(v) => s.fault.fail_ids = v.iter().copied().collect(),
                Plan::Kind(c) => s.fault.fail_kinds = vec![*c],
                Plan::PunchUnsupported => s.fault.punch_unsupported = true,
                Plan::NoPunchIds(v) => {
                    s.fault.punch_unsupported = true;
                    s.fault.fail_ids = v.iter().copied().collect();
                }
            }
        }
        // allowed values per block
        let nblk = w.rd.blocks.len();
        let mut allowed: Vec<Vec<u64>> = w.rd.blocks.iter().map(|b| vec![*b]).collect();
        let cs = w.rd.cs as u64;
        let vsize = w.rd.vsize;
        let mut any_changed = false;
        let mut uncertain = vec![false; w.rd.own.len()];
        for (i, op) in hist.iter().enumerate() {
            let before = w.sim.borrow().reqs.len();
            let own_before = w.rd.own.clone();
            let res = w.step(op);
            let s = w.sim.borrow();
            let failed_here: Vec<String> =
                s.reqs[before..].iter().filter(|r| r.failed).map(|r| format!("{}@{:#x}", r.kind.short(), r.off)).collect();
            // a failed punch that was followed by a successful zero write of the same range is invisible
            let hard_fail = s.reqs[before..].iter().enumerate().any(|(k, r)| {
                r.failed
                    && !(matches!(r.kind, Kind::Zero { .. })
                        && s.reqs[before..].get(k + 1).map_or(false, |n| {
                            !n.failed && n.off == r.off && matches!(&n.kind, Kind::Write { data } if data.len() == r.kind.len() && data.iter().all(|x| *x == 0))
                        }))
            });
            drop(s);
            if let Some(p) = &res.panic {
                out.push(self.viol(
                    format!("panic:{}:{}", op_kind(op), err_category(p)),
                    format!("operation {} ({}) panicked: {} (failed requests: {:?})", i, op.short(), p, failed_here),
                    hist,
                    plan,
                ));
                return out;
            }
            if hard_fail {
                any_changed = true;
                if res.ok {
                    let short = matches!(op, Op::Read { len, .. } if res.count != *len);
                    out.push(self.viol(
                        format!("error-swallowed:{}{}", op_kind(op), if short { ":short-count" } else { "" }),
                        format!("operation {} ({}) returned {} although backend request(s) {:?} failed", i, op.short(), res.short(), failed_here),
                        hist,
                        plan,
                    ));
                }
            } else if !res.ok {
                out.push(self.viol(
                    format!("later-op-failed:{}:{}", op_kind(op), err_category(res.err.as_deref().unwrap_or(""))),
                    format!("operation {} ({}) returned {} with no failing request of its own", i, op.short(), res.short()),
                    hist,
                    plan,
                ));
            }
            // update the allowed sets
            let acked = res.ok && !hard_fail;
            match op {
                Op::Write { off, len, tag } => {
                    for k in 0..len / BLK {
                        let b = *off as usize / BLK + k;
                        let v = spec::word(*tag, k as u32);
                        if acked {
                            allowed[b] = vec![v];
                        } else if !allowed[b].contains(&v) {
                            allowed[b].push(v);
                        }
                    }
                    let c0 = *off / cs;
                    let c1 = (*off + *len as u64 - 1) / cs;
                    for c in c0..=c1 {
                        uncertain[c as usize] = !acked;
                    }
                }
                Op::Discard { off, len } => {
                    let end = off.saturating_add(*len).min(vsize);
                    let start = (*off + cs - 1) / cs * cs;
                    let stop = end / cs * cs;
                    let mut g = start;
                    while g < stop {
                        let c = (g / cs) as usize;
                        for k in 0..(cs as usize / BLK) {
                            let b = g as usize / BLK + k;
                            if acked && !uncertain[c] {
                                if own_before[c] == CState::Data {
                                    allowed[b] = vec![0];
                                }
                            } else if !allowed[b].contains(&0) {
                                allowed[b].push(0);
                            }
                        }
                        if !acked {
                            uncertain[c] = true;
                        }
                        g += cs;
                    }
                }
                _ => {}
            }
            if w.dev.is_none() {
                return out; // reopen failed under fault: nothing more to drive
            }
        }
        if any_changed {
            st.changed_result += 1;
        }
        // heal
        {
            let mut s = w.sim.borrow_mut();
            s.fault = Default::default();
        }
        let mut flushed = false;
        let mut last_err = String::new();
        for _ in 0..4 {
            let r = w.step(&Op::Flush);
            if let Some(p) = &r.panic {
                out.push(self.viol(format!("panic:healed-flush:{}", err_category(p)), format!("flush_meta after healing panicked: {}", p), hist, plan));
                return out;
            }
            if r.ok {
                flushed = true;
                break;
            }
            last_err = r.short();
        }
        if !flushed {
            out.push(self.viol(
                format!("healed-flush-never-ok:{}", err_category(&last_err)),
                format!("flush_meta still fails after the backend healed (4 attempts): {}", last_err),
                hist,
                plan,
            ));
            return out;
        }
        // C04 after a fault: a crash anywhere behind the failed request (in the rest of the history and
        // in the healed flush) has to leave a safe image as well
        if self.crash_oracle {
            let s = w.sim.borrow();
            if let Some(ff) = s.reqs.iter().position(|r| r.failed) {
                let mut bad: Option<String> = None;
                for win in crate::crash::windows(&s, 0) {
                    if bad.is_some() || !win.unsynced.iter().any(|id| *id > ff) {
                        continue;
                    }
                    win.enumerate(1 << 10, 2, |img, _| {
                        use std::hash::{Hash, Hasher};
                        let mut hh = std::collections::hash_map::DefaultHasher::new();
                        img.hash(&mut hh);
                        0xC04Fu16.hash(&mut hh);
                        if !crate::lin::CRASH_SEEN.lock().unwrap().insert(hh.finish()) {
                            return true;
                        }
                        crate::lin::CRASH_IMAGES.fetch_add(1, std::sync::atomic::Ordering::Relaxed);
                        if let Some((c, d)) = check_image(img).first_problem(false) {
                            bad = Some(format!("{}\u{1}{}", c, d));
                            return false;
                        }
                        true
                    });
                }
                drop(s);
                if let Some(b) = bad {
                    let (c, d) = b.split_once('\u{1}').unwrap();
                    let kinds: std::collections::BTreeSet<&str> = hist.iter().map(|o| op_kind(o)).collect();
                    let mut v = self.viol(
                        format!("crash-after-fault:{}:{}", c, kinds.into_iter().collect::<Vec<_>>().join("+")),
                        format!("a crash behind the failed request (the backend healed, flush_meta was retried) can leave an unsafe image: {}", d),
                        hist,
                        plan,
                    );
                    v.prop = "C04".into();
                    out.push(v);
                }
            }
        }
        // C02 after a faulted history: flush_meta returned Ok and nothing was issued since, so a
        // new device on the same bytes has to read what the old one reads
        let live = w.dev.as_ref().map(|d| crate::lin::read_all(d, vsize as usize, 1usize << self.cfg.bs_bits));
        let rep = check_image(&w.sim.borrow().files[0]);
        if let Some((c, d)) = rep.first_problem(false) {
            out.push(self.viol(format!("healed-image-unsafe:{}", c), format!("after healing and flush_meta the file is unsafe: {}", d), hist, plan));
        }
        // reopen and compare with the allowed sets
        let sim2 = Sim::new(w.sim.borrow().files.clone());
        match open_chain(&sim2, 0, &self.cfg, false) {
            Ok(d2) => {
                let got = crate::lin::read_all(&d2, vsize as usize, 1usize << self.cfg.bs_bits);
                if let Some(live) = &live {
                    if let Some(b) = (0..nblk).find(|b| live[*b] != got[*b]) {
                        let failed_kinds: std::collections::BTreeSet<&str> = hist.iter().map(|o| op_kind(o)).collect();
                        let mut v = self.viol(
                            format!("reopen-differs-after-faulted-history:{}:live-{}-reopened-{}", failed_kinds.into_iter().collect::<Vec<_>>().join("+"), classify_word(live[b]), classify_word(got[b])),
                            format!(
                                "after the backend healed and flush_meta returned Ok, guest block {:#x} reads {} on the old device but {} on a device opened on the same file",
                                b * BLK,
                                describe_word(live[b]),
                                describe_word(got[b])
                            ),
                            hist,
                            plan,
                        );
                        v.prop = "C02".into();
                        // the same observation under C18 when the flag is clear at this quiescent point
                        if w.dev.as_ref().map_or(false, |d| !d.need_flush_meta()) {
                            let mut v18 = v.clone();
                            v18.prop = "C18".into();
                            v18.class = format!("flag-clear-{}", v18.class);
                            out.push(v18);
                        }
                        out.push(v);
                    }
                }
                for b in 0..nblk {
                    let ok = match got[b] {
                        Some(v) => allowed[b].contains(&v),
                        None => false,
                    };
                    if !ok {
                        let goff = (b * BLK) as u64;
                        let targeted = hist.iter().any(|op| match op {
                            Op::Write { off, len, .. } => goff >= *off && goff < *off + *len as u64,
                            Op::Discard { off, len } => goff >= *off && goff < off.saturating_add(*len),
                            _ => false,
                        });
                        out.push(self.viol(
                            format!(
                                "{}:got-{}",
                                if targeted { "acknowledged-data-lost-after-heal" } else { "untargeted-block-changed-after-heal" },
                                classify_word(got[b])
                            ),
                            format!(
                                "after healing, flush_meta and reopen guest block {:#x} reads {} but only {:?} are explained by the acknowledged operations",
                                b * BLK,
                                describe_word(got[b]),
                                allowed[b].iter().map(|x| describe_word(Some(*x))).collect::<Vec<_>>()
                            ),
                            hist,
                            plan,
                        ));
                        break;
                    }
                }
            }
            Err(e) => out.push(self.viol(format!("healed-reopen-failed:{}", err_category(&e)), e, hist, plan)),
        }
        if !out.is_empty() {
            return out;
        }
        // "the device stays usable": keep using it. Drop the caches (everything is re-loaded from
        // the file or rebuilt), read everything back, dirty some metadata again, flush, reopen.
        let r = w.step(&Op::Shrink);
        if !r.ok {
            out.push(self.viol(format!("later-op-failed:shrink-after-heal:{}", err_category(r.err.as_deref().unwrap_or(""))), format!("shrink_caches after healing returned {}", r.short()), hist, plan));
            return out;
        }
        if let Some(d) = w.dev.as_ref() {
            let got = crate::lin::read_all(d, vsize as usize, 1usize << self.cfg.bs_bits);
            if let Some(b) = (0..nblk).find(|b| !got[*b].map_or(false, |v| allowed[*b].contains(&v))) {
                out.push(self.viol(
                    format!("acknowledged-data-lost-on-the-healed-device:got-{}", classify_word(got[b])),
                    format!("after healing, flush_meta and shrink_caches the device itself reads {} at guest block {:#x}; explained by the acknowledged operations: {:?}", describe_word(got[b]), b * BLK, allowed[b].iter().map(|x| describe_word(Some(*x))).collect::<Vec<_>>()),
                    hist,
                    plan,
                ));
                return out;
            }
        }
        // one more metadata update in the last table, flush, reopen
        let last = (vsize - cs) / cs * cs;
        let tagw = 0x7e;
        let r1 = w.step(&Op::Write { off: last, len: BLK, tag: tagw });
        let r2 = w.step(&Op::Flush);
        if r1.ok && r2.ok {
            allowed[(last as usize) / BLK] = vec![spec::word(tagw, 0)];
            let sim3 = Sim::new(w.sim.borrow().files.clone());
            if let Ok(d3) = open_chain(&sim3, 0, &self.cfg, false) {
                let got = crate::lin::read_all(&d3, vsize as usize, 1usize << self.cfg.bs_bits);
                if let Some(b) = (0..nblk).find(|b| !got[*b].map_or(false, |v| allowed[*b].contains(&v))) {
                    out.push(self.viol(
                        format!("acknowledged-data-lost-after-heal-and-further-use:got-{}", classify_word(got[b])),
                        format!("after healing, flush, shrink, one more write + flush, a device opened on the file reads {} at guest block {:#x}; explained: {:?}", describe_word(got[b]), b * BLK, allowed[b].iter().map(|x| describe_word(Some(*x))).collect::<Vec<_>>()),
                        hist,
                        plan,
                    ));
                }
            }
        } else if r1.panic.is_some() || r2.panic.is_some() {
            out.push(self.viol("panic:use-after-heal".into(), format!("write/flush after healing panicked: {:?} {:?}", r1.panic, r2.panic), hist, plan));
        } else {
            out.push(self.viol(format!("later-op-failed:use-after-heal:{}", err_category(r1.err.as_deref().or(r2.err.as_deref()).unwrap_or(""))), format!("write {} / flush {} after healing", r1.short(), r2.short()), hist, plan));
        }
        out
    }
}

/// all histories of exactly `depth` operations
pub fn all_histories(alphabet: &[Op], depth: usize) -> Vec<Vec<Op>> {
    let mut out: Vec<Vec<Op>> = vec![vec![]];
    for _ in 0..depth {
        let mut next = Vec::with_capacity(out.len() * alphabet.len());
        for h in out.iter() {
            for op in alphabet {
                let mut n = h.clone();
                n.push(op.clone());
                next.push(n);
            }
        }
        out = next;
    }
    out
}
