//! Per-block linearizability oracle (C06) and final-state oracles for
//! concurrent executions.
use crate::report::Violation;
use crate::sched::{Execution, SchedScenario};
use crate::seq::{err_category, op_kind};
use crate::simio::Sim;
use crate::spec::{self, BLK};
use crate::world::*;

pub static CRASH_SEEN: std::sync::Mutex<std::collections::BTreeSet<u64>> = std::sync::Mutex::new(std::collections::BTreeSet::new());
pub static CRASH_IMAGES: std::sync::atomic::AtomicU64 = std::sync::atomic::AtomicU64::new(0);

#[derive(Clone, Debug)]
enum Ev {
    /// write of value v
    W(u64),
    /// discard of the whole cluster holding the block
    D,
    /// read that observed value
    R(Option<u64>),
}

#[derive(Clone, Debug)]
struct BlockEvent {
    ev: Ev,
    inv: u64,
    resp: u64,
    /// operation returned Err: its effect may or may not have happened
    optional: bool,
    rec: usize,
}

/// Is there a total order of `evs` consistent with real time in which every
/// read sees the latest preceding write/discard (initial value `init`)?
/// `discard_may_noop`: a discard may leave the value unchanged (cluster without own allocation).
fn linearizable(evs: &[BlockEvent], init: u64, discard_may_noop: bool) -> bool {
    fn rec(evs: &[BlockEvent], used: &mut Vec<bool>, cur: u64, discard_may_noop: bool, left: usize) -> bool {
        if left == 0 {
            return true;
        }
        for i in 0..evs.len() {
            if used[i] {
                continue;
            }
            // i may go next only if no unused j finished before i was invoked
            let mut ok = true;
            for j in 0..evs.len() {
                if j != i && !used[j] && evs[j].resp < evs[i].inv {
                    ok = false;
                    break;
                }
            }
            if !ok {
                continue;
            }
            used[i] = true;
            let e = &evs[i];
            let mut nexts: Vec<u64> = vec![];
            match &e.ev {
                Ev::W(v) => {
                    nexts.push(*v);
                    if e.optional {
                        nexts.push(cur);
                    }
                }
                Ev::D => {
                    nexts.push(0);
                    if discard_may_noop || e.optional {
                        nexts.push(cur);
                    }
                }
                Ev::R(v) => {
                    if *v == Some(cur) {
                        nexts.push(cur);
                    }
                }
            }
            nexts.dedup();
            for nx in nexts {
                if rec(evs, used, nx, discard_may_noop, left - 1) {
                    used[i] = false;
                    return true;
                }
            }
            used[i] = false;
        }
        false
    }
    let mut used = vec![false; evs.len()];
    rec(evs, &mut used, init, discard_may_noop, evs.len())
}

pub struct SchedOutcome {
    pub fingerprint: u64,
    pub violations: Vec<Violation>,
}

fn viol(sc: &SchedScenario, x: &Execution, prop: &str, class: String, detail: String) -> Violation {
    let slice_lt = sc.cfg.l2.map_or(false, |l| (l.0 as u32) < sc.img.cluster_bits);
    Violation {
        prop: prop.into(),
        class: format!("{}|img={}|slice<cluster={}", class, sc.img.kind, slice_lt),
        detail: format!("{} [{} ; schedule {:?}]", detail, sc.describe(), x.choices),
        replay: sc.to_json(&x.choices),
    }
}

fn ops_signature(sc: &SchedScenario) -> String {
    let mut k: Vec<&str> = sc.tasks.iter().flat_map(|t| t.iter().map(op_kind)).collect();
    k.sort();
    k.dedup();
    k.join("+")
}

/// All oracles on one finished concurrent execution.
pub fn judge(sc: &SchedScenario, mut x: Execution, want: &[&str]) -> SchedOutcome {
    use std::hash::{Hash, Hasher};
    let mut h = std::collections::hash_map::DefaultHasher::new();
    let mut out = vec![];
    let has = |p: &str| want.contains(&p);
    let sig = ops_signature(sc);

    // ---- C07: progress ----
    if let Some(p) = &x.panic {
        out.push(viol(sc, &x, if has("C17") { "C17" } else { "C07" }, format!("panic:{}:{}", sig, err_category(p)), format!("a task panicked: {}", p)));
        "panic".hash(&mut h);
        return SchedOutcome { fingerprint: h.finish(), violations: out };
    }
    if x.deadlock || x.livelock {
        let blocked: Vec<String> = x
            .blocked_tasks
            .iter()
            .map(|t| {
                let cur = x.records.iter().filter(|r| r.task == *t && !r.finished).map(|r| r.op.short()).next().unwrap_or_default();
                format!("T{} in {}", t, cur)
            })
            .collect();
        let kinds: Vec<&str> = {
            let mut k: Vec<&str> = x
                .blocked_tasks
                .iter()
                .filter_map(|t| x.records.iter().filter(|r| r.task == *t && !r.finished).map(|r| op_kind(&r.op)).next())
                .collect();
            k.sort();
            k
        };
        if has("C07") || has("C17") {
            out.push(viol(
                sc,
                &x,
                if has("C17") { "C17" } else { "C07" },
                format!("{}:blocked={}", if x.deadlock { "deadlock" } else { "livelock" }, kinds.join("+")),
                format!(
                    "{}: no enabled action but unfinished tasks [{}]; backend log tail: {:?}",
                    if x.deadlock { "deadlock" } else { "livelock (step budget exceeded)" },
                    blocked.join(", "),
                    {
                        let s = x.world.sim.borrow();
                        let l = s.log_lines(x.log_start);
                        l[l.len().saturating_sub(6)..].to_vec()
                    }
                ),
            ));
        }
        "stuck".hash(&mut h);
        kinds.hash(&mut h);
        return SchedOutcome { fingerprint: h.finish(), violations: out };
    }
    for r in x.records.iter() {
        r.res.hash(&mut h);
        if !r.res.ok && has("C07") {
            out.push(viol(
                sc,
                &x,
                "C07",
                format!("spurious-error:{}:{}", op_kind(&r.op), err_category(r.res.err.as_deref().unwrap_or(""))),
                format!("T{} {} returned {} although the backend completed every request", r.task, r.op.short(), r.res.short()),
            ));
        }
    }

    // ---- C08: runs handed out concurrently are disjoint and within the requested count ----
    if has("C08") {
        let cb = sc.img.cluster_bits;
        let mut runs: Vec<(u64, u64, usize)> = vec![];
        for r in x.records.iter() {
            if let (Op::Alloc(n), Some((off, cnt))) = (&r.op, r.res.alloc) {
                if cnt == 0 || cnt > *n {
                    out.push(viol(sc, &x, "C08", "alloc:bad-count".into(), format!("T{} {} returned {} clusters", r.task, r.op.short(), cnt)));
                }
                runs.push((off >> cb, (off >> cb) + cnt as u64, r.task));
            }
        }
        for i in 0..runs.len() {
            for j in i + 1..runs.len() {
                if runs[i].0 < runs[j].1 && runs[j].0 < runs[i].1 {
                    out.push(viol(
                        sc,
                        &x,
                        "C08",
                        "alloc:handed-out-twice:concurrent".into(),
                        format!("T{} got host clusters {:#x}..{:#x} and T{} got {:#x}..{:#x}", runs[i].2, runs[i].0, runs[i].1, runs[j].2, runs[j].0, runs[j].1),
                    ));
                }
            }
        }
        runs.hash(&mut h);
        // settle and check ownership
        let fr = std::panic::catch_unwind(std::panic::AssertUnwindSafe(|| crate::world::block_on(x.world.dev().flush_meta())));
        if let Ok(Ok(())) = fr {
            let rep = crate::spec::check_image(&x.world.sim.borrow().files[0]);
            if let Some((c, d)) = rep.first_problem(false) {
                out.push(viol(sc, &x, "C08", format!("ownership:{}:concurrent:{}", c, sig), d));
            }
            for (c, st, n) in rep.leaked.iter() {
                let held = runs.iter().any(|r| *c >= r.0 && *c < r.1);
                if !held || *st != 1 {
                    out.push(viol(sc, &x, "C08", format!("ownership:leak:concurrent:{}", sig), format!("host cluster {:#x} stored {} refs {} and no requester holds it", c, st, n)));
                    break;
                }
            }
        } else {
            out.push(viol(sc, &x, "C08", "flush-failed:concurrent".into(), format!("{:?}", fr.map(|r| r.map_err(|e| format!("{e:?}"))))));
        }
    }

    // ---- C04 (concurrent): every crash image of the concurrent phase's request log ----
    if has("C04") {
        let s = x.world.sim.borrow();
        let wins = crate::crash::windows(&s, 0);
        let mut images = 0u64;
        for win in wins.iter().filter(|w| w.unsynced.iter().any(|id| *id >= x.log_start)) {
            let mut bad: Option<(String, String)> = None;
            win.enumerate(1 << 12, 3, |img, _| {
                use std::hash::{Hash, Hasher};
                let mut hh = std::collections::hash_map::DefaultHasher::new();
                img.hash(&mut hh);
                if !CRASH_SEEN.lock().unwrap().insert(hh.finish()) {
                    return true;
                }
                images += 1;
                let rep = crate::spec::check_image(img);
                if let Some(p) = rep.first_problem(false) {
                    bad = Some(p);
                    return false;
                }
                true
            });
            if let Some((c, d)) = bad {
                // the listed free-ordering finding: offending cluster punched by a discard of this execution
                let cb = sc.img.cluster_bits;
                let cl = d.split("host cluster 0x").nth(1).and_then(|t| t.split(' ').next()).and_then(|t| u64::from_str_radix(t, 16).ok());
                let by_discard = cl.map_or(false, |cl| {
                    s.reqs.iter().any(|r| {
                        if let crate::simio::Kind::Zero { len } = &r.kind {
                            let is_data_punch = *len == (1usize << cb);
                            let c0 = r.off >> cb;
                            // issued by a task that only discards (the zeroing of a freshly allocated data cluster looks the same)
                            let by_discarder = r.id >= x.log_start && sc.tasks.get(r.task).map_or(false, |t| !t.is_empty() && t.iter().all(|o| matches!(o, Op::Discard { .. })));
                            is_data_punch && c0 == cl && by_discarder
                        } else {
                            false
                        }
                    })
                });
                let _ = by_discard;
                let class = format!("crash:{}:concurrent:{}", c, sig);
                out.push(viol(sc, &x, "C04", class, format!("a crash during the concurrent phase can leave an unsafe image: {}", d)));
            }
        }
        let _ = images;
        CRASH_IMAGES.fetch_add(images, std::sync::atomic::Ordering::Relaxed);
    }

    // ---- C05 (concurrent): what task 0's sync made durable survives every later crash ----
    if has("C05") {
        if let Some(rec) = x.records.iter().find(|r| r.task == 0 && matches!(r.op, Op::Sync) && r.res.ok) {
            let _ = rec;
            let s = x.world.sim.borrow();
            // the fsync_range request that ended the sync
            let f = s.reqs[x.log_start..].iter().filter(|r| r.task == 0 && r.kind == crate::simio::Kind::Sync && r.complete_seq.is_some()).map(|r| r.id).max();
            if let Some(f) = f {
                let fdone = s.reqs[f].complete_seq.unwrap();
                let rd0 = &x.world.rd;
                let cs = rd0.cs as u64;
                // synced blocks: non-zero after the set-up and not targeted by any concurrent operation
                let targeted = |goff: u64| {
                    x.records.iter().any(|r| match &r.op {
                        Op::Write { off, len, .. } => goff >= *off && goff < *off + *len as u64,
                        Op::Discard { off, len } => {
                            let end = off.saturating_add(*len).min(rd0.vsize);
                            goff >= (*off + cs - 1) / cs * cs && goff < end / cs * cs
                        }
                        _ => false,
                    })
                };
                let synced: Vec<usize> = (0..rd0.blocks.len()).filter(|b| rd0.blocks[*b] != 0 && !targeted((*b * BLK) as u64)).collect();
                let wins = crate::crash::windows(&s, 0);
                let mut bad: Option<(String, String)> = None;
                for win in wins.iter() {
                    let after = match win.closed_by {
                        Some(g) => s.reqs[g].complete_seq.unwrap() > fdone,
                        None => true,
                    };
                    if !after || bad.is_some() {
                        continue;
                    }
                    win.enumerate(1 << 10, 2, |img, _| {
                        use std::hash::{Hash, Hasher};
                        let mut hh = std::collections::hash_map::DefaultHasher::new();
                        img.hash(&mut hh);
                        synced.hash(&mut hh);
                        0xC05u16.hash(&mut hh);
                        if !CRASH_SEEN.lock().unwrap().insert(hh.finish()) {
                            return true;
                        }
                        CRASH_IMAGES.fetch_add(1, std::sync::atomic::Ordering::Relaxed);
                        let mut files = s.files.clone();
                        files[0] = img.to_vec();
                        let sim2 = Sim::new(files);
                        match open_chain(&sim2, 0, &sc.cfg, false) {
                            Ok(d2) => {
                                let got = read_all(&d2, rd0.vsize as usize, 1usize << sc.cfg.bs_bits);
                                for b in synced.iter() {
                                    if got[*b] != Some(rd0.blocks[*b]) {
                                        bad = Some((
                                            format!("synced-block-lost:got-{}", classify_word(got[*b])),
                                            format!("guest block {:#x} held {} when sync returned Ok but reads {} in a crash state after it", b * BLK, describe_word(Some(rd0.blocks[*b])), describe_word(got[*b])),
                                        ));
                                        return false;
                                    }
                                }
                            }
                            Err(e) => {
                                bad = Some((format!("open-failed:{}", err_category(&e)), e));
                                return false;
                            }
                        }
                        true
                    });
                }
                if let Some((c, d)) = bad {
                    out.push(viol(sc, &x, "C05", format!("crash:concurrent:{}:{}", c, sig), d));
                }
            }
        }
    }

    // ---- final observations ----
    let rd0 = x.world.rd.clone(); // state after the set-up
    let bs = 1usize << sc.cfg.bs_bits;
    let vsize = rd0.vsize as usize;
    let nblk = vsize / BLK;
    let need_flush_before = x.world.dev().need_flush_meta();
    // C18 (concurrent): flag false at the quiescent end => file == memory
    let mut reopened_before: Option<Vec<Option<u64>>> = None;
    if has("C18") && !need_flush_before {
        // nothing may be dirty in RAM (a dirty refcount slice means the file does not reflect a
        // completed release or allocation, which no guest read shows)
        let st = x.world.dev().verif_dump_state();
        let dirty = st.l2_slices.iter().filter(|s| s.dirty).count()
            + st.rb_slices.iter().filter(|s| s.dirty).count()
            + st.l1_dirty_blocks.len()
            + st.reftable_dirty_blocks.len();
        if dirty != 0 {
            out.push(viol(
                sc,
                &x,
                "C18",
                format!("flag-clear-but-dirty:{}", sig),
                format!("need_flush_meta()==false after all operations finished, with {} dirty slices/blocks in RAM", dirty),
            ));
        }
        let sim2 = Sim::new(x.world.sim.borrow().files.clone());
        match open_chain(&sim2, 0, &sc.cfg, false) {
            Ok(d2) => reopened_before = Some(read_all(&d2, vsize, bs)),
            Err(e) => out.push(viol(sc, &x, "C18", format!("flag-clear-reopen-failed:{}", err_category(&e)), e)),
        }
    }
    let final_words = read_all(x.world.dev(), vsize, bs);
    final_words.hash(&mut h);
    if let Some(rb) = &reopened_before {
        if let Some(b) = (0..nblk).find(|&b| rb[b] != final_words[b]) {
            out.push(viol(
                sc,
                &x,
                "C18",
                format!("flag-clear-reopen-differs:{}:got-{}", sig, classify_word(rb[b])),
                format!(
                    "need_flush_meta()==false after all operations finished, but a device opened on the file reads {} at guest block {:#x} where the live device reads {}",
                    describe_word(rb[b]),
                    b * BLK,
                    describe_word(final_words[b])
                ),
            ));
        }
    }

    // ---- C06: per-block linearizability incl. the final content ----
    if has("C06") {
        let cs = rd0.cs;
        let discard_may_noop = sc.img.kind == "backing" || sc.img.kind == "compressed" || sc.img.kind == "zero";
        let mut done = false;
        for b in 0..nblk {
            if done {
                break;
            }
            let goff = (b * BLK) as u64;
            let mut evs: Vec<BlockEvent> = vec![];
            for (ri, r) in x.records.iter().enumerate() {
                match &r.op {
                    Op::Write { off, len, tag } => {
                        if goff >= *off && goff < *off + *len as u64 {
                            let bi = ((goff - off) as usize) / BLK;
                            evs.push(BlockEvent { ev: Ev::W(spec::word(*tag, bi as u32)), inv: r.inv, resp: r.resp, optional: !r.res.ok, rec: ri });
                        }
                    }
                    Op::Discard { off, len } => {
                        let end = off.saturating_add(*len).min(rd0.vsize);
                        let start = (*off + cs as u64 - 1) / cs as u64 * cs as u64;
                        let stop = end / cs as u64 * cs as u64;
                        if goff >= start && goff < stop {
                            evs.push(BlockEvent { ev: Ev::D, inv: r.inv, resp: r.resp, optional: !r.res.ok, rec: ri });
                        }
                    }
                    Op::Read { off, len } => {
                        if goff >= *off && goff < *off + *len as u64 && r.res.ok {
                            let bi = ((goff - off) as usize) / BLK;
                            if r.res.count != *len {
                                out.push(viol(sc, &x, "C06", format!("short-read:{}", sig), format!("T{} {} returned Ok({})", r.task, r.op.short(), r.res.count)));
                                done = true;
                                break;
                            }
                            evs.push(BlockEvent { ev: Ev::R(r.res.words[bi]), inv: r.inv, resp: r.resp, optional: false, rec: ri });
                        }
                    }
                    _ => {}
                }
            }
            if evs.is_empty() && final_words[b] == Some(rd0.blocks[b]) {
                continue;
            }
            evs.push(BlockEvent { ev: Ev::R(final_words[b]), inv: u64::MAX - 1, resp: u64::MAX, optional: false, rec: usize::MAX });
            if !linearizable(&evs, rd0.blocks[b], discard_may_noop) {
                // describe
                let touching: Vec<String> = evs
                    .iter()
                    .filter(|e| e.rec != usize::MAX)
                    .map(|e| {
                        let r = &x.records[e.rec];
                        format!("T{} {}[{}..{}]{}", r.task, r.op.short(), r.inv, r.resp, match &e.ev {
                            Ev::R(v) => format!(" saw {}", describe_word(*v)),
                            _ => String::new(),
                        })
                    })
                    .collect();
                let kinds = {
                    let mut k: Vec<&str> = evs.iter().filter(|e| e.rec != usize::MAX).map(|e| op_kind(&x.records[e.rec].op)).collect();
                    k.sort();
                    k.dedup();
                    k.join("+")
                };
                // which observation is unexplained: the final one or a read?
                let without_final: Vec<BlockEvent> = evs[..evs.len() - 1].to_vec();
                let culprit = if linearizable(&without_final, rd0.blocks[b], discard_may_noop) { "final" } else { "read" };
                out.push(viol(
                    sc,
                    &x,
                    "C06",
                    format!("not-linearizable:{}:block-ops={}:all-ops={}:final-{}", culprit, kinds, sig, classify_word(final_words[b])),
                    format!(
                        "guest block {:#x} (initially {}): no order of [{}] explains the observations; final content {}",
                        goff,
                        describe_word(Some(rd0.blocks[b])),
                        touching.join(", "),
                        describe_word(final_words[b])
                    ),
                ));
                done = true;
            }
        }
    }

    // ---- content survives flush + reopen (C06 / C02) ----
    if has("C06") || has("C02") || has("C03") || has("C18") {
        let fr = std::panic::catch_unwind(std::panic::AssertUnwindSafe(|| crate::world::block_on(x.world.dev().flush_meta())));
        match fr {
            Ok(Ok(())) => {
                if has("C03") {
                    let rep = crate::spec::check_image(&x.world.sim.borrow().files[0]);
                    if let Some((c, d)) = rep.first_problem(true) {
                        out.push(viol(sc, &x, "C03", format!("checker:{}:after-concurrent-ops:{}", c, sig), format!("after all operations finished and flush_meta() returned Ok: {}", d)));
                    }
                }
                let sim2 = Sim::new(x.world.sim.borrow().files.clone());
                match open_chain(&sim2, 0, &sc.cfg, false) {
                    Ok(d2) => {
                        let after = read_all(&d2, vsize, bs);
                        // C18: the flag is clear, so the file has to reflect every completed operation:
                        // per block, what a device opened on the file reads must be explained by some
                        // real-time-respecting order of the completed writes and discards
                        if has("C18") && !x.world.dev().need_flush_meta() {
                            let cs = rd0.cs as u64;
                            let discard_may_noop = sc.img.kind == "backing" || sc.img.kind == "compressed" || sc.img.kind == "zero";
                            for b in 0..nblk {
                                let goff = (b * BLK) as u64;
                                let mut evs: Vec<BlockEvent> = vec![];
                                for (ri, r) in x.records.iter().enumerate() {
                                    match &r.op {
                                        Op::Write { off, len, tag } if goff >= *off && goff < *off + *len as u64 => {
                                            let bi = ((goff - off) as usize) / BLK;
                                            evs.push(BlockEvent { ev: Ev::W(spec::word(*tag, bi as u32)), inv: r.inv, resp: r.resp, optional: !r.res.ok, rec: ri });
                                        }
                                        Op::Discard { off, len } => {
                                            let end = off.saturating_add(*len).min(rd0.vsize);
                                            let start = (*off + cs - 1) / cs * cs;
                                            let stop = end / cs * cs;
                                            if goff >= start && goff < stop {
                                                evs.push(BlockEvent { ev: Ev::D, inv: r.inv, resp: r.resp, optional: !r.res.ok, rec: ri });
                                            }
                                        }
                                        _ => {}
                                    }
                                }
                                if evs.is_empty() && after[b] == Some(rd0.blocks[b]) {
                                    continue;
                                }
                                evs.push(BlockEvent { ev: Ev::R(after[b]), inv: u64::MAX - 1, resp: u64::MAX, optional: false, rec: usize::MAX });
                                if !linearizable(&evs, rd0.blocks[b], discard_may_noop) {
                                    out.push(viol(
                                        sc,
                                        &x,
                                        "C18",
                                        format!("flag-clear-file-misses-completed-operation:{}:got-{}", sig, classify_word(after[b])),
                                        format!(
                                            "after all operations finished, flush_meta() returned Ok and need_flush_meta()==false, a device opened on the file reads {} at guest block {:#x}, which no order of the completed operations explains",
                                            describe_word(after[b]),
                                            b * BLK
                                        ),
                                    ));
                                    break;
                                }
                            }
                        }
                        if let Some(b) = (0..nblk).find(|&b| after[b] != final_words[b]) {
                            // C18 at this later quiescent point: the flag is clear after a successful flush_meta
                            if has("C18") && !x.world.dev().need_flush_meta() {
                                out.push(viol(
                                    sc,
                                    &x,
                                    "C18",
                                    format!("flag-clear-after-flush-reopen-differs:{}:got-{}", sig, classify_word(after[b])),
                                    format!(
                                        "after all operations finished, flush_meta() returned Ok and need_flush_meta()==false, but a device opened on the file reads {} at guest block {:#x} where the live device reads {}",
                                        describe_word(after[b]),
                                        b * BLK,
                                        describe_word(final_words[b])
                                    ),
                                ));
                            }
                            for p in ["C06", "C02"] {
                                if has(p) {
                                    out.push(viol(
                                        sc,
                                        &x,
                                        p,
                                        format!("reopen-differs-after-concurrent-ops:{}:got-{}", sig, classify_word(after[b])),
                                        format!(
                                            "after all operations finished and flush_meta() returned Ok, a device opened on the file reads {} at guest block {:#x} where the old device read {}",
                                            describe_word(after[b]),
                                            b * BLK,
                                            describe_word(final_words[b])
                                        ),
                                    ));
                                }
                            }
                        }
                    }
                    Err(e) => {
                        if has("C02") {
                            out.push(viol(sc, &x, "C02", format!("reopen-failed-after-concurrent-ops:{}", err_category(&e)), e));
                        }
                    }
                }
            }
            Ok(Err(e)) => {
                if has("C07") {
                    out.push(viol(sc, &x, "C07", format!("spurious-error:final-flush:{}", err_category(&format!("{e:?}"))), format!("final flush_meta failed: {e:?}")));
                }
            }
            Err(e) => {
                if has("C07") {
                    out.push(viol(sc, &x, "C07", format!("panic:final-flush:{}", err_category(&panic_msg(e))), "final flush_meta panicked".into()));
                }
            }
        }
    }
    let _ = &mut x;
    SchedOutcome { fingerprint: h.finish(), violations: out }
}

/// read the whole guest cluster by cluster; None = torn / error
pub fn read_all(dev: &Dev, vsize: usize, bs: usize) -> Vec<Option<u64>> {
    let nblk = vsize / BLK;
    let mut out = vec![None; nblk];
    let info_cs = dev.info.cluster_size();
    let mut off = 0usize;
    while off < vsize {
        let len = info_cs.min(vsize - off) / bs * bs;
        if len == 0 {
            break;
        }
        let mut b = qcow2_rs::helpers::Qcow2IoBuf::<u8>::new(len);
        for x in b.iter_mut() {
            *x = 0x5a;
        }
        let r = std::panic::catch_unwind(std::panic::AssertUnwindSafe(|| crate::world::block_on(dev.read_at(&mut b, off as u64))));
        if let Ok(Ok(n)) = r {
            if n == len {
                for (i, w) in decode_read(&b).into_iter().enumerate() {
                    out[off / BLK + i] = w;
                }
            }
        }
        off += len;
    }
    out
}
