//! World — one simulated host (files of a backing chain), one open device on
//! it, and the flat reference disk (RefDisk) the device must agree with.
use crate::simio::{Mode, Sim, SimIo};
use crate::spec::{self, block_word, fill_block, word, Built, GKind, BLK};
use qcow2_rs::dev::{Qcow2Dev, Qcow2DevParams};
use qcow2_rs::helpers::Qcow2IoBuf;
use std::cell::RefCell;
use std::hash::{Hash, Hasher};
use std::panic::{catch_unwind, AssertUnwindSafe};
use std::rc::Rc;

pub type Dev = Qcow2Dev<SimIo>;

/// block_on for sequential (immediate-completion) executions: every backend request
/// completes inside its first poll, so a future that returns Pending without having been
/// woken waits for a lock nobody will release - a self-deadlock. That is reported as a
/// panic-like observation ("DEADLOCK") instead of parking the thread forever.
pub fn block_on<F: std::future::Future>(fut: F) -> F::Output {
    use std::sync::atomic::{AtomicBool, Ordering};
    use std::sync::Arc;
    use std::task::{Context, Poll, Wake, Waker};
    struct Flag(AtomicBool);
    impl Wake for Flag {
        fn wake(self: Arc<Self>) {
            self.0.store(true, Ordering::SeqCst);
        }
        fn wake_by_ref(self: &Arc<Self>) {
            self.0.store(true, Ordering::SeqCst);
        }
    }
    let flag = Arc::new(Flag(AtomicBool::new(false)));
    let waker = Waker::from(flag.clone());
    let mut cx = Context::from_waker(&waker);
    let mut fut = Box::pin(fut);
    let mut polls = 0u64;
    loop {
        flag.0.store(false, Ordering::SeqCst);
        match fut.as_mut().poll(&mut cx) {
            Poll::Ready(v) => return v,
            Poll::Pending => {
                polls += 1;
                if !flag.0.load(Ordering::SeqCst) {
                    std::mem::forget(fut);
                    panic!("DEADLOCK: the operation waits for a lock that is never released (no backend request outstanding)");
                }
                if polls > 1_000_000 {
                    std::mem::forget(fut);
                    panic!("LIVELOCK: the operation was woken a million times without finishing");
                }
            }
        }
    }
}

#[derive(Clone, Debug, PartialEq, Eq, Hash, PartialOrd, Ord)]
pub enum Op {
    Write { off: u64, len: usize, tag: u32 },
    Read { off: u64, len: usize },
    Discard { off: u64, len: u64 },
    Flush,
    /// flush_meta then fsync_range over the whole virtual size
    Sync,
    Shrink,
    /// Qcow2Dev::check(): walks every refcount block (loads and evicts slices), changes nothing
    Check,
    /// flush_meta, drop the device, open a new one (same parameters)
    Reopen,
    /// same with the alternate parameters
    ReopenAlt,
    /// allocator alphabet (C08): allocate n clusters through the hook
    Alloc(usize),
    /// free the k-th live run handed out by Alloc
    Free(usize),
}

impl Op {
    pub fn short(&self) -> String {
        match self {
            Op::Write { off, len, tag } => format!("W({:#x},{},t{})", off, len, tag),
            Op::Read { off, len } => format!("R({:#x},{})", off, len),
            Op::Discard { off, len } => format!("D({:#x},{:#x})", off, len),
            Op::Flush => "flush".into(),
            Op::Sync => "sync".into(),
            Op::Shrink => "shrink".into(),
            Op::Check => "check".into(),
            Op::Reopen => "reopen".into(),
            Op::ReopenAlt => "reopen'".into(),
            Op::Alloc(n) => format!("alloc({})", n),
            Op::Free(k) => format!("free(#{})", k),
        }
    }
    pub fn to_json(&self) -> serde_json::Value {
        use serde_json::json;
        match self {
            Op::Write { off, len, tag } => json!({"op":"write","off":off,"len":len,"tag":tag}),
            Op::Read { off, len } => json!({"op":"read","off":off,"len":len}),
            Op::Discard { off, len } => json!({"op":"discard","off":off,"len":len}),
            Op::Flush => json!({"op":"flush"}),
            Op::Sync => json!({"op":"sync"}),
            Op::Shrink => json!({"op":"shrink"}),
            Op::Check => json!({"op":"check"}),
            Op::Reopen => json!({"op":"reopen"}),
            Op::ReopenAlt => json!({"op":"reopen_alt"}),
            Op::Alloc(n) => json!({"op":"alloc","n":n}),
            Op::Free(k) => json!({"op":"free","k":k}),
        }
    }
    pub fn from_json(v: &serde_json::Value) -> Option<Op> {
        let o = v.get("op")?.as_str()?;
        let u = |k: &str| v.get(k).and_then(|x| x.as_u64());
        Some(match o {
            "write" => Op::Write { off: u("off")?, len: u("len")? as usize, tag: u("tag")? as u32 },
            "read" => Op::Read { off: u("off")?, len: u("len")? as usize },
            "discard" => Op::Discard { off: u("off")?, len: u("len")? },
            "flush" => Op::Flush,
            "sync" => Op::Sync,
            "shrink" => Op::Shrink,
            "check" => Op::Check,
            "reopen" => Op::Reopen,
            "reopen_alt" => Op::ReopenAlt,
            "alloc" => Op::Alloc(u("n")? as usize),
            "free" => Op::Free(u("k")? as usize),
            _ => return None,
        })
    }
    pub fn is_flushing(&self) -> bool {
        matches!(self, Op::Flush | Op::Sync | Op::Shrink | Op::Reopen | Op::ReopenAlt)
    }
}

pub fn hist_str(h: &[Op]) -> String {
    h.iter().map(|o| o.short()).collect::<Vec<_>>().join(" ; ")
}

#[derive(Clone, Debug, PartialEq, Eq, Hash)]
pub struct DevCfg {
    pub bs_bits: u8,
    pub l2: Option<(u8, usize)>,
    pub rb: Option<(u8, usize)>,
}

impl DevCfg {
    pub fn params(&self, ro: bool, backing: bool) -> Qcow2DevParams {
        let mut p = Qcow2DevParams::new(self.bs_bits, self.rb, self.l2, ro, false);
        if backing {
            p.mark_backing_dev(Some(true));
        }
        p
    }
    pub fn describe(&self) -> String {
        format!("bs={} l2={:?} rb={:?}", 1u32 << self.bs_bits, self.l2, self.rb)
    }
    pub fn to_json(&self) -> serde_json::Value {
        serde_json::json!({"bs_bits": self.bs_bits, "l2": self.l2.map(|x| vec![x.0 as usize, x.1]), "rb": self.rb.map(|x| vec![x.0 as usize, x.1])})
    }
    pub fn from_json(v: &serde_json::Value) -> DevCfg {
        let opt = |k: &str| v.get(k).and_then(|x| x.as_array()).map(|a| (a[0].as_u64().unwrap() as u8, a[1].as_u64().unwrap() as usize));
        DevCfg { bs_bits: v["bs_bits"].as_u64().unwrap_or(9) as u8, l2: opt("l2"), rb: opt("rb") }
    }
}

// ---------------------------------------------------------------------
// RefDisk
// ---------------------------------------------------------------------
#[derive(Clone, Copy, Debug, PartialEq, Eq, Hash)]
pub enum CState {
    /// no own allocation: content comes from the backing chain (or zeros)
    Unalloc,
    Zero,
    ZeroPrealloc,
    Data,
    Compressed,
    /// was own data, discarded: reads zeros
    Discarded,
}

#[derive(Clone, Debug, PartialEq, Eq, Hash)]
pub struct RefDisk {
    pub cs: usize,
    pub vsize: u64,
    /// content word of every 512-byte guest block (0 = zeros)
    pub blocks: Vec<u64>,
    pub own: Vec<CState>,
}

impl RefDisk {
    /// chain[0] is the top image
    pub fn from_chain(chain: &[&Built]) -> RefDisk {
        let top = chain[0];
        let cs = top.spec.cs();
        let vsize = top.spec.virtual_size;
        let nblk = (vsize as usize + BLK - 1) / BLK;
        let mut blocks = vec![0u64; nblk];
        for b in 0..nblk {
            blocks[b] = Self::chain_word(chain, (b * BLK) as u64);
        }
        let own = top
            .truth
            .iter()
            .map(|t| match t.kind {
                GKind::Unalloc => CState::Unalloc,
                GKind::Data => CState::Data,
                GKind::Zero => CState::Zero,
                GKind::ZeroPrealloc => CState::ZeroPrealloc,
                GKind::Compressed => CState::Compressed,
            })
            .collect();
        RefDisk { cs, vsize, blocks, own }
    }

    fn chain_word(chain: &[&Built], off: u64) -> u64 {
        for img in chain {
            if off >= img.spec.virtual_size {
                return 0; // zeros beyond the end of a shorter backing image
            }
            let c = (off >> img.spec.cluster_bits) as usize;
            let t = &img.truth[c];
            if t.kind != GKind::Unalloc {
                let bi = (off as usize & (img.spec.cs() - 1)) / BLK;
                return t.words[bi];
            }
        }
        0
    }

    pub fn empty(cs: usize, vsize: u64) -> RefDisk {
        let nblk = (vsize as usize + BLK - 1) / BLK;
        let ncl = (vsize as usize + cs - 1) / cs;
        RefDisk { cs, vsize, blocks: vec![0; nblk], own: vec![CState::Unalloc; ncl] }
    }

    pub fn write(&mut self, off: u64, len: usize, tag: u32) {
        let b0 = off as usize / BLK;
        for i in 0..len / BLK {
            self.blocks[b0 + i] = word(tag, i as u32);
        }
        let c0 = off as usize / self.cs;
        let c1 = (off as usize + len - 1) / self.cs;
        for c in c0..=c1 {
            self.own[c] = CState::Data;
        }
    }

    pub fn discard(&mut self, off: u64, len: u64) {
        if len == 0 {
            return;
        }
        let end = off.saturating_add(len).min(self.vsize);
        if off >= end {
            return;
        }
        let cs = self.cs as u64;
        let start = (off + cs - 1) / cs * cs;
        let stop = end / cs * cs;
        let mut g = start;
        while g < stop {
            let c = (g / cs) as usize;
            if self.own[c] == CState::Data {
                let b0 = g as usize / BLK;
                for b in 0..self.cs / BLK {
                    self.blocks[b0 + b] = 0;
                }
                self.own[c] = CState::Discarded;
            }
            g += cs;
        }
    }
}

// ---------------------------------------------------------------------
// operation results
// ---------------------------------------------------------------------
#[derive(Clone, Debug, PartialEq, Eq, Hash)]
pub struct OpResult {
    pub ok: bool,
    pub err: Option<String>,
    pub panic: Option<String>,
    pub count: usize,
    /// per 512-byte block of a read buffer: Some(word) or None if not uniform
    pub words: Vec<Option<u64>>,
    pub alloc: Option<(u64, usize)>,
}

impl OpResult {
    pub fn short(&self) -> String {
        if let Some(p) = &self.panic {
            return format!("PANIC({})", p);
        }
        match &self.err {
            Some(e) => format!("Err({})", e),
            None => format!("Ok({})", self.count),
        }
    }
}

pub const UNTOUCHED: u64 = 0x5a5a_5a5a_5a5a_5a5a;

pub fn panic_msg(e: Box<dyn std::any::Any + Send>) -> String {
    if let Some(s) = e.downcast_ref::<&str>() {
        s.to_string()
    } else if let Some(s) = e.downcast_ref::<String>() {
        s.clone()
    } else {
        "panic".into()
    }
}

pub fn make_write_buf(len: usize, tag: u32) -> Qcow2IoBuf<u8> {
    let mut b = Qcow2IoBuf::<u8>::new(len.max(1));
    for i in 0..len / BLK {
        fill_block(&mut b[i * BLK..(i + 1) * BLK], word(tag, i as u32));
    }
    b
}

pub fn decode_read(buf: &[u8]) -> Vec<Option<u64>> {
    buf.chunks(BLK).map(|c| if c.len() == BLK { block_word(c) } else { None }).collect()
}

/// execute one data-path operation on a device (async, used by both the
/// sequential and the concurrent engines)
pub async fn run_op_async<T: qcow2_rs::ops::Qcow2IoOps>(dev: &Qcow2Dev<T>, op: &Op, vsize: u64) -> OpResult {
    let mut r = OpResult { ok: false, err: None, panic: None, count: 0, words: vec![], alloc: None };
    let res: Result<usize, String> = match op {
        Op::Write { off, len, tag } => {
            let b = make_write_buf(*len, *tag);
            dev.write_at(&b[..*len], *off).await.map(|_| *len).map_err(|e| format!("{e:?}"))
        }
        Op::Read { off, len } => {
            let mut b = Qcow2IoBuf::<u8>::new((*len).max(1));
            for x in b.iter_mut() {
                *x = 0x5a;
            }
            let res = dev.read_at(&mut b[..*len], *off).await.map_err(|e| format!("{e:?}"));
            r.words = decode_read(&b[..*len]);
            res
        }
        Op::Discard { off, len } => dev.discard(*off, *len).await.map(|_| 0).map_err(|e| format!("{e:?}")),
        Op::Flush => dev.flush_meta().await.map(|_| 0).map_err(|e| format!("{e:?}")),
        Op::Sync => match dev.flush_meta().await {
            Ok(_) => dev.fsync_range(0, vsize as usize).await.map(|_| 0).map_err(|e| format!("{e:?}")),
            Err(e) => Err(format!("{e:?}")),
        },
        Op::Shrink => dev.shrink_caches().await.map(|_| 0).map_err(|e| format!("{e:?}")),
        Op::Check => dev.check().await.map(|_| 0).map_err(|e| format!("{e:?}")),
        Op::Alloc(n) => match dev.verif_allocate_clusters(*n).await {
            Ok(Some(a)) => {
                r.alloc = Some(a);
                Ok(a.1)
            }
            Ok(None) => Err("allocate_clusters returned None".into()),
            Err(e) => Err(format!("{e:?}")),
        },
        Op::Free(_) | Op::Reopen | Op::ReopenAlt => Err("handled by World".into()),
    };
    match res {
        Ok(n) => {
            r.ok = true;
            r.count = n;
        }
        Err(e) => r.err = Some(e),
    }
    r
}

// ---------------------------------------------------------------------
// World
// ---------------------------------------------------------------------
pub struct World {
    pub sim: Rc<RefCell<Sim>>,
    pub dev: Option<Dev>,
    pub cfg: DevCfg,
    pub alt: DevCfg,
    pub using_alt: bool,
    pub rd: RefDisk,
    /// live runs handed out by Op::Alloc
    pub runs: Vec<(u64, usize)>,
    pub op_idx: usize,
}

pub fn open_chain(sim: &Rc<RefCell<Sim>>, idx: usize, cfg: &DevCfg, backing: bool) -> Result<Dev, String> {
    let r = catch_unwind(AssertUnwindSafe(|| -> Result<Dev, String> {
        let io = SimIo::new(sim, idx);
        let params = cfg.params(backing, backing);
        let path = format!("sim{}", idx);
        let (mut dev, back) = block_on(qcow2_rs::utils::qcow2_alloc_dev(
            std::path::Path::new(&path),
            io,
            &params,
        ))
        .map_err(|e| format!("open: {e:?}"))?;
        if back.is_some() {
            let nfiles = sim.borrow().files.len();
            if idx + 1 < nfiles {
                let bdev = open_chain_inner(sim, idx + 1, cfg)?;
                dev.set_backing_dev(Box::new(bdev));
            } else {
                return Err("image names a backing file the harness does not have".into());
            }
        }
        if !backing {
            block_on(dev.qcow2_prep_io()).map_err(|e| format!("prep_io: {e:?}"))?;
        }
        Ok(dev)
    }));
    match r {
        Ok(x) => x,
        Err(e) => Err(format!("PANIC in open: {}", panic_msg(e))),
    }
}

fn open_chain_inner(sim: &Rc<RefCell<Sim>>, idx: usize, cfg: &DevCfg) -> Result<Dev, String> {
    let io = SimIo::new(sim, idx);
    let params = cfg.params(true, true);
    let path = format!("sim{}", idx);
    let (mut dev, back) =
        block_on(qcow2_rs::utils::qcow2_alloc_dev(std::path::Path::new(&path), io, &params))
            .map_err(|e| format!("open backing: {e:?}"))?;
    if back.is_some() {
        let nfiles = sim.borrow().files.len();
        if idx + 1 < nfiles {
            let bdev = open_chain_inner(sim, idx + 1, cfg)?;
            dev.set_backing_dev(Box::new(bdev));
        } else {
            return Err("image names a backing file the harness does not have".into());
        }
    }
    Ok(dev)
}

impl World {
    pub fn new(files: Vec<Vec<u8>>, rd: RefDisk, cfg: &DevCfg, alt: &DevCfg) -> Result<World, String> {
        let sim = Sim::new(files);
        let dev = open_chain(&sim, 0, cfg, false)?;
        Ok(World {
            sim,
            dev: Some(dev),
            cfg: cfg.clone(),
            alt: alt.clone(),
            using_alt: false,
            rd,
            runs: vec![],
            op_idx: 0,
        })
    }

    pub fn dev(&self) -> &Dev {
        self.dev.as_ref().unwrap()
    }

    pub fn cur_cfg(&self) -> &DevCfg {
        if self.using_alt {
            &self.alt
        } else {
            &self.cfg
        }
    }

    /// run one operation sequentially (immediate completion); updates RefDisk
    /// when the operation reports success
    pub fn step(&mut self, op: &Op) -> OpResult {
        self.op_idx += 1;
        {
            let mut s = self.sim.borrow_mut();
            s.cur_op = self.op_idx;
            s.mode = Mode::Immediate;
        }
        let vsize = self.rd.vsize;
        let res = match op {
            Op::Reopen | Op::ReopenAlt => self.reopen(matches!(op, Op::ReopenAlt)),
            Op::Free(k) => {
                if *k >= self.runs.len() {
                    OpResult { ok: true, err: None, panic: None, count: 0, words: vec![], alloc: None }
                } else {
                    let (off, cnt) = self.runs.remove(*k);
                    let dev = self.dev.as_ref().unwrap();
                    let r = catch_unwind(AssertUnwindSafe(|| {
                        block_on(dev.verif_free_clusters(off, cnt))
                    }));
                    match r {
                        Ok(Ok(())) => {
                            OpResult { ok: true, err: None, panic: None, count: cnt, words: vec![], alloc: Some((off, cnt)) }
                        }
                        Ok(Err(e)) => OpResult {
                            ok: false,
                            err: Some(format!("{e:?}")),
                            panic: None,
                            count: 0,
                            words: vec![],
                            alloc: None,
                        },
                        Err(e) => OpResult {
                            ok: false,
                            err: None,
                            panic: Some(panic_msg(e)),
                            count: 0,
                            words: vec![],
                            alloc: None,
                        },
                    }
                }
            }
            _ => {
                let dev = self.dev.as_ref().unwrap();
                let r = catch_unwind(AssertUnwindSafe(|| block_on(run_op_async(dev, op, vsize))));
                match r {
                    Ok(r) => r,
                    Err(e) => OpResult {
                        ok: false,
                        err: None,
                        panic: Some(panic_msg(e)),
                        count: 0,
                        words: vec![],
                        alloc: None,
                    },
                }
            }
        };
        if res.ok {
            match op {
                Op::Write { off, len, tag } => self.rd.write(*off, *len, *tag),
                Op::Discard { off, len } => self.rd.discard(*off, *len),
                Op::Alloc(_) => {
                    if let Some(a) = res.alloc {
                        self.runs.push(a);
                    }
                }
                _ => {}
            }
        }
        res
    }

    fn reopen(&mut self, alt: bool) -> OpResult {
        let mut out = OpResult { ok: false, err: None, panic: None, count: 0, words: vec![], alloc: None };
        {
            let dev = self.dev.as_ref().unwrap();
            let r = catch_unwind(AssertUnwindSafe(|| block_on(dev.flush_meta())));
            match r {
                Ok(Ok(())) => {}
                Ok(Err(e)) => {
                    out.err = Some(format!("flush before reopen: {e:?}"));
                    return out;
                }
                Err(e) => {
                    out.panic = Some(panic_msg(e));
                    return out;
                }
            }
        }
        self.dev = None;
        self.using_alt = alt;
        let cfg = self.cur_cfg().clone();
        match open_chain(&self.sim, 0, &cfg, false) {
            Ok(d) => {
                self.dev = Some(d);
                out.ok = true;
            }
            Err(e) => {
                if e.starts_with("PANIC") {
                    out.panic = Some(e);
                } else {
                    out.err = Some(e);
                }
            }
        }
        out
    }

    /// expected words for a read of [off, off+len)
    pub fn expect(&self, off: u64, len: usize) -> Vec<u64> {
        let b0 = off as usize / BLK;
        (0..len / BLK).map(|i| self.rd.blocks[b0 + i]).collect()
    }
}

#[derive(Clone, Debug)]
pub struct Mismatch {
    pub shape: &'static str,
    pub off: u64,
    pub len: usize,
    pub what: String,
}

/// Read `dev` completely in the given shapes and compare with `rd`.
/// Returns the first mismatch of every shape (at most one per shape).
pub fn sweep(dev: &Dev, rd: &RefDisk, bs: usize, full: bool) -> Vec<Mismatch> {
    let mut out = vec![];
    let cs = rd.cs;
    let vsize = rd.vsize as usize;
    let mut shapes: Vec<(&'static str, usize, usize)> = vec![]; // (name, start offset, length)
    // multi-cluster spans starting half a cluster in (or one block in when cs == bs)
    let lead = if cs / 2 >= bs { cs / 2 / bs * bs } else { 0 };
    shapes.push(("span", lead, 3 * cs));
    if full {
        shapes.push(("cluster", 0, cs));
        shapes.push(("block", 0, bs));
    }
    for (name, lead, step) in shapes {
        let mut off = 0usize;
        let mut first = true;
        while off < vsize {
            let len = if first && lead > 0 { lead } else { step }.min(vsize - off);
            first = false;
            let len = len / bs * bs;
            if len == 0 {
                break;
            }
            let mut b = Qcow2IoBuf::<u8>::new(len);
            for x in b.iter_mut() {
                *x = 0x5a;
            }
            let res = catch_unwind(AssertUnwindSafe(|| block_on(dev.read_at(&mut b, off as u64))));
            let bad = match res {
                Err(e) => Some(format!("panic: {}", panic_msg(e))),
                Ok(Err(e)) => Some(format!("read error: {e:?}")),
                Ok(Ok(n)) if n != len => Some(format!("short read: Ok({}) of {}", n, len)),
                Ok(Ok(_)) => {
                    let got = decode_read(&b);
                    let b0 = off / BLK;
                    let mut bad = None;
                    for (i, g) in got.iter().enumerate() {
                        let want = rd.blocks[b0 + i];
                        if *g != Some(want) {
                            bad = Some(format!(
                                "guest block {:#x}: expected {} got {}",
                                off + i * BLK,
                                describe_word(Some(want)),
                                describe_word(*g)
                            ));
                            break;
                        }
                    }
                    bad
                }
            };
            if let Some(what) = bad {
                out.push(Mismatch { shape: name, off: off as u64, len, what });
                break;
            }
            off += len;
        }
    }
    out
}

pub fn describe_word(w: Option<u64>) -> String {
    match w {
        None => "torn/non-uniform block".into(),
        Some(0) => "zeros".into(),
        Some(UNTOUCHED) => "buffer untouched".into(),
        Some(x) if x == u64::from_be_bytes([qcow2_rs::verif::POISON; 8]) => "uninitialised (poison) bytes".into(),
        Some(x) if x & 0x3F00_0000_0000_01FE == 0x3F00_0000_0000_01FE && x >> 62 == 0 => {
            format!("tag {:#x} blk {}", spec::word_tag(x), (x >> 9) & 0x7fff)
        }
        Some(x) => format!("foreign bytes {:#018x}", x),
    }
}

/// classification of a wrong block value, used in violation classes
pub fn classify_word(w: Option<u64>) -> &'static str {
    match w {
        None => "torn",
        Some(0) => "zeros",
        Some(UNTOUCHED) => "untouched",
        Some(x) if x == u64::from_be_bytes([qcow2_rs::verif::POISON; 8]) => "poison",
        Some(x) if x & 0x3F00_0000_0000_01FE == 0x3F00_0000_0000_01FE && x >> 62 == 0 => "other-data",
        Some(_) => "foreign",
    }
}

// ---------------------------------------------------------------------
// digest
// ---------------------------------------------------------------------
pub fn hash_bytes<H: Hasher>(h: &mut H, b: &[u8]) {
    b.len().hash(h);
    h.write(b);
}

fn rank(v: &[usize]) -> Vec<usize> {
    let mut s: Vec<usize> = v.to_vec();
    s.sort();
    s.dedup();
    v.iter().map(|x| s.binary_search(x).unwrap()).collect()
}

pub fn digest_dev<H: Hasher>(h: &mut H, dev: &Dev) {
    let st = dev.verif_dump_state();
    hash_bytes(h, &st.header);
    hash_bytes(h, &st.l1);
    st.l1_offset.hash(h);
    st.l1_header_entries.hash(h);
    st.l1_dirty_blocks.hash(h);
    hash_bytes(h, &st.reftable);
    st.reftable_offset.hash(h);
    st.reftable_dirty_blocks.hash(h);
    for (slices, wl) in [(&st.l2_slices, st.l2_wmap_len), (&st.rb_slices, st.rb_wmap_len)] {
        let ranks = rank(&slices.iter().map(|s| s.lru).collect::<Vec<_>>());
        slices.len().hash(h);
        wl.hash(h);
        for (s, r) in slices.iter().zip(ranks) {
            s.key.hash(h);
            s.offset.hash(h);
            s.dirty.hash(h);
            r.hash(h);
            s.users.hash(h);
            s.data.hash(h);
        }
    }
    st.new_clusters.hash(h);
    st.free_cluster_offset.hash(h);
    st.need_flush.hash(h);
    st.contended.hash(h);
}

impl World {
    pub fn digest(&self, with_durability: bool) -> u64 {
        let mut h = std::collections::hash_map::DefaultHasher::new();
        {
            let s = self.sim.borrow();
            for f in s.files.iter() {
                hash_bytes(&mut h, f);
            }
            if with_durability {
                let d = crate::crash::durable_summary(&s, 0);
                d.hash(&mut h);
            }
        }
        if let Some(d) = &self.dev {
            digest_dev(&mut h, d);
            let mut b = d.verif_backing();
            while let Some(x) = b {
                digest_dev(&mut h, x);
                b = x.verif_backing();
            }
        } else {
            0xdeadu32.hash(&mut h);
        }
        self.using_alt.hash(&mut h);
        self.rd.hash(&mut h);
        self.runs.hash(&mut h);
        h.finish()
    }
}
