//! C19 — the three real backends agree with each other and with SimIo.
use crate::report::{Run, Violation};
use crate::simio::{Sim, SimIo};
use crate::world::*;
use qcow2_rs::dev::Qcow2Dev;
use qcow2_rs::helpers::Qcow2IoBuf;
use qcow2_rs::ops::Qcow2IoOps;
use qcow2_rs::sync_io::Qcow2IoSync;
use qcow2_rs::tokio_io::Qcow2IoTokio;
use qcow2_rs::uring::Qcow2IoUring;
use serde_json::json;
use std::path::{Path, PathBuf};

const BS: usize = 4096;
const L0: usize = 4 * BS;

#[derive(Clone, Debug, PartialEq, Eq)]
enum Rq {
    Write(i64, usize), // offset relative to the current file length in blocks (… encoded below), length
    Read(i64, usize),
    Punch(i64, usize),
    Sync,
}

/// offsets are given as (anchor, blocks): anchor 0 = file start, 1 = current end of file
#[derive(Clone, Debug, PartialEq, Eq)]
struct Req {
    kind: u8, // 0 write 1 read 2 punch 3 sync
    anchor_end: bool,
    delta: i64, // in blocks
    len: usize,
}

impl Req {
    fn describe(&self) -> String {
        let k = ["write", "read", "punch", "fsync"][self.kind as usize];
        if self.kind == 3 {
            return k.into();
        }
        format!("{}({}{:+} blocks, len {})", k, if self.anchor_end { "EOF" } else { "0" }, self.delta, self.len)
    }
    fn offset(&self, flen: usize) -> u64 {
        let base = if self.anchor_end { flen as i64 } else { 0 };
        (base + self.delta * BS as i64).max(0) as u64
    }
}

fn alphabet() -> Vec<Req> {
    let mut v = vec![];
    for kind in 0..3u8 {
        for (anchor_end, delta) in [(false, 0i64), (true, -1), (true, 0), (true, 1)] {
            for len in [BS, 2 * BS] {
                v.push(Req { kind, anchor_end, delta, len });
            }
        }
    }
    v.push(Req { kind: 1, anchor_end: false, delta: 0, len: 0 });
    v.push(Req { kind: 0, anchor_end: false, delta: 1, len: 0 });
    v.push(Req { kind: 3, anchor_end: false, delta: 0, len: 0 });
    v
}

fn initial() -> Vec<u8> {
    let mut f = vec![0u8; L0];
    for (i, b) in f.iter_mut().enumerate() {
        *b = 0x10 + (i / BS) as u8;
    }
    f
}

#[derive(Clone, Debug, PartialEq, Eq)]
struct Outcome {
    /// per request: (ok, count, hash of read data)
    results: Vec<(bool, usize, u64)>,
    file: Vec<u8>,
}

fn h64(b: &[u8]) -> u64 {
    use std::hash::{Hash, Hasher};
    let mut h = std::collections::hash_map::DefaultHasher::new();
    b.hash(&mut h);
    h.finish()
}

/// run one sequence on any backend; `flen` is tracked by the caller's model of the file length
async fn run_seq<T: Qcow2IoOps>(io: &T, seq: &[Req], seqno: usize) -> Vec<(bool, usize, u64)> {
    let mut out = vec![];
    let mut flen = L0;
    for (i, r) in seq.iter().enumerate() {
        let off = r.offset(flen);
        match r.kind {
            0 => {
                let mut b = Qcow2IoBuf::<u8>::new(r.len.max(1));
                for (k, x) in b.iter_mut().enumerate() {
                    *x = 0x80 + ((seqno + i * 7 + k / BS) % 64) as u8;
                }
                let res = io.write_from(off, &b[..r.len]).await;
                if res.is_ok() && r.len > 0 {
                    flen = flen.max(off as usize + r.len);
                }
                out.push((res.is_ok(), 0, 0));
            }
            1 => {
                let mut b = Qcow2IoBuf::<u8>::new(r.len.max(1));
                for x in b.iter_mut() {
                    *x = 0x5a;
                }
                let res = io.read_to(off, &mut b[..r.len]).await;
                match res {
                    // bytes beyond the returned count are unspecified (direct IO may clobber them)
                    Ok(n) => out.push((true, n, h64(&b[..n.min(r.len)]))),
                    Err(_) => out.push((false, 0, 0)),
                }
            }
            2 => {
                let res = io.fallocate(off, r.len, qcow2_rs::ops::Qcow2OpsFlags::FALLOCATE_ZERO_RANGE).await;
                out.push((res.is_ok(), 0, 0));
            }
            _ => {
                let res = io.fsync(0, usize::MAX, 0).await;
                out.push((res.is_ok(), 0, 0));
            }
        }
    }
    // make everything visible to an independent reader of the file
    let _ = io.fsync(0, usize::MAX, 0).await;
    out
}

fn model(seq: &[Req], seqno: usize) -> Outcome {
    let sim = Sim::new(vec![initial()]);
    let io = SimIo::new(&sim, 0);
    let results = block_on(run_seq(&io, seq, seqno));
    let file = sim.borrow().files[0].clone();
    Outcome { results, file }
}

fn scratch() -> PathBuf {
    let d = PathBuf::from(format!("/verif/target/c19-{}", std::process::id()));
    let _ = std::fs::create_dir_all(&d);
    d
}

fn all_sequences(max_len: usize, large: bool) -> Vec<Vec<Req>> {
    let a = alphabet();
    let mut out: Vec<Vec<Req>> = vec![vec![]];
    let mut frontier: Vec<Vec<Req>> = vec![vec![]];
    for _ in 0..max_len {
        let mut next = vec![];
        for s in frontier.iter() {
            for r in a.iter() {
                let mut n = s.clone();
                n.push(r.clone());
                next.push(n);
            }
        }
        out.extend(next.iter().cloned());
        frontier = next;
    }
    if large {
        for r in a.iter() {
            for big in [64usize << 10, 2 << 20, 4 << 20] {
                for kind in [0u8, 1] {
                    out.push(vec![r.clone(), Req { kind, anchor_end: false, delta: 0, len: big }, Req { kind: 1, anchor_end: false, delta: 0, len: big }]);
                }
            }
        }
    }
    out
}

fn backend_names() -> Vec<&'static str> {
    vec!["tokio", "sync", "sync-dio", "uring", "uring-dio"]
}

/// executes all sequences on one backend; returns outcome per sequence
fn run_backend(name: &str, seqs: &[Vec<Req>], dir: &Path) -> Result<Vec<Outcome>, String> {
    let path = dir.join(format!("{}.img", name));
    let name = name.to_string();
    let seqs = seqs.to_vec();
    let body = move |kind: &str| -> std::pin::Pin<Box<dyn std::future::Future<Output = Vec<Outcome>>>> {
        let path = path.clone();
        let seqs = seqs.clone();
        let kind = kind.to_string();
        Box::pin(async move {
            let mut outs = Vec::with_capacity(seqs.len());
            for (i, s) in seqs.iter().enumerate() {
                std::fs::write(&path, initial()).unwrap();
                let results = match kind.as_str() {
                    "tokio" => {
                        let io = Qcow2IoTokio::new(&path, false, false).await;
                        run_seq(&io, s, i).await
                    }
                    "sync" | "sync-dio" => {
                        let io = Qcow2IoSync::new(&path, false, kind == "sync-dio");
                        run_seq(&io, s, i).await
                    }
                    _ => {
                        let io = Qcow2IoUring::new(&path, false, kind == "uring-dio").await;
                        run_seq(&io, s, i).await
                    }
                };
                let file = std::fs::read(&path).unwrap();
                outs.push(Outcome { results, file });
            }
            let _ = std::fs::remove_file(&path);
            outs
        })
    };
    let r = std::panic::catch_unwind(std::panic::AssertUnwindSafe(|| match name.as_str() {
        "tokio" => {
            let rt = tokio::runtime::Builder::new_current_thread().enable_all().build().unwrap();
            rt.block_on(body("tokio"))
        }
        "sync" | "sync-dio" => {
            let rt = tokio::runtime::Builder::new_current_thread().enable_all().build().unwrap();
            rt.block_on(body(&name))
        }
        _ => tokio_uring::start(body(&name)),
    }));
    r.map_err(|e| format!("backend {} panicked: {}", name, panic_msg(e)))
}

// ---- guest level -------------------------------------------------------------
async fn guest_history<T: Qcow2IoOps>(dev: &Qcow2Dev<T>, hist: &[Op], vsize: u64) -> (Vec<String>, Vec<Option<u64>>) {
    let mut res = vec![];
    for op in hist {
        let r = run_op_async(dev, op, vsize).await;
        res.push(format!("{} {:?}", r.short(), r.words));
    }
    // full read-back, cluster by cluster
    let cs = dev.info.cluster_size();
    let mut words = vec![];
    let mut off = 0u64;
    while off < vsize {
        let mut b = Qcow2IoBuf::<u8>::new(cs);
        for x in b.iter_mut() {
            *x = 0x5a;
        }
        match dev.read_at(&mut b, off).await {
            Ok(n) if n == cs => words.extend(decode_read(&b)),
            _ => words.extend(vec![None; cs / 512]),
        }
        off += cs as u64;
    }
    let _ = dev.flush_meta().await;
    (res, words)
}

fn guest_histories() -> Vec<Vec<Op>> {
    let g = crate::images::G10;
    let a = crate::images::alphabet(&g, false);
    let pick = |idx: &[usize]| -> Vec<Op> { idx.iter().map(|i| a[*i % a.len()].clone()).collect() };
    vec![
        pick(&[0, 1, 8]),
        pick(&[5, 11, 0, 16]),
        pick(&[2, 3, 12, 5, 17]),
        pick(&[4, 6, 13, 4, 16, 9]),
        pick(&[7, 14, 7, 18]),
        pick(&[5, 15, 1, 10, 16]),
        pick(&[1, 2, 3, 4, 5, 6, 7]),
        pick(&[5, 12, 13, 14, 5, 16, 0]),
        pick(&[3, 16, 11, 3, 17, 2]),
        pick(&[6, 0, 12, 18, 6, 8]),
    ]
}

pub fn c19() -> i32 {
    let run = Run::new("C19", "exploration");
    let thorough = run.thorough();
    let dir = scratch();
    let seqs = all_sequences(if thorough { 3 } else { 2 }, true);
    let models: Vec<Outcome> = seqs.iter().enumerate().map(|(i, s)| model(s, i)).collect();
    let mut evals = 0u64;
    let mut distinct = std::collections::BTreeSet::new();
    let names = backend_names();
    let handles: Vec<_> = names
        .iter()
        .map(|n| {
            let n = n.to_string();
            let seqs = seqs.clone();
            let dir = dir.clone();
            std::thread::spawn(move || (n.clone(), run_backend(&n, &seqs, &dir)))
        })
        .collect();
    let mut mach_err = None;
    for h in handles {
        let (name, r) = h.join().unwrap();
        match r {
            Ok(outs) => {
                for (i, (o, m)) in outs.iter().zip(models.iter()).enumerate() {
                    evals += 1;
                    distinct.insert(h64(&m.file) ^ m.results.iter().fold(0u64, |a, r| a.wrapping_mul(31).wrapping_add(r.1 as u64 + r.0 as u64)));
                    if o != m {
                        // what differs
                        let mut what = String::new();
                        let mut class = String::new();
                        for (k, (a, b)) in o.results.iter().zip(m.results.iter()).enumerate() {
                            if a != b {
                                let kindname = ["write", "read", "punch", "fsync"][seqs[i][k].kind as usize];
                                class = format!("result:{}:{}", kindname, if a.0 != b.0 { "ok-vs-err" } else if a.1 != b.1 { "count" } else { "data" });
                                what = format!("request {} ({}) returned ok={} count={} on {}, the model says ok={} count={}{}", k, seqs[i][k].describe(), a.0, a.1, name, b.0, b.1, if a.2 != b.2 { " (read data differ)" } else { "" });
                                break;
                            }
                        }
                        if what.is_empty() {
                            class = if o.file.len() != m.file.len() { "file:length".into() } else { "file:content".into() };
                            let p = o.file.iter().zip(m.file.iter()).position(|(a, b)| a != b);
                            what = format!("final file differs: length {} vs model {}, first differing byte {:?}", o.file.len(), m.file.len(), p);
                        }
                        let big = seqs[i].iter().any(|r| r.len > 2 * BS);
                        run.add(Violation {
                            prop: "C19".into(),
                            class: format!("{}:{}{}", name, class, if big { ":large-request" } else { "" }),
                            detail: format!("{} [sequence {}: {}]", what, i, seqs[i].iter().map(|r| r.describe()).collect::<Vec<_>>().join(" ; ")),
                            replay: json!({"engine":"enum-c19","backend":name,"sequence":seqs[i].iter().map(|r| r.describe()).collect::<Vec<_>>()}),
                        });
                    }
                }
            }
            Err(e) => mach_err = Some(e),
        }
    }
    if let Some(e) = mach_err {
        // a backend that panics on a request sequence is a finding about the backend, not about the machinery
        run.add(Violation { prop: "C19".into(), class: format!("backend-panic:{}", crate::seq::err_category(&e)), detail: e.clone(), replay: json!({"engine":"enum-c19","error":e}) });
    }
    // ---- guest histories through the whole library on every backend ----
    let g = crate::images::G10;
    let img = crate::images::lib_formatted(g.cluster_bits, g.order, g.vsize());
    let vsize = g.vsize();
    let hists = guest_histories();
    let params = g.cfg_small().params(false, false);
    let mut guest_runs = 0u64;
    for (hi, hist) in hists.iter().enumerate() {
        // model
        let sim = Sim::new(img.files.clone());
        let mdev = open_chain(&sim, 0, &g.cfg_small(), false).unwrap();
        let mres = block_on(guest_history(&mdev, hist, vsize));
        // the same model where hole punching is unsupported (the library's zero-write fallback runs)
        {
            let sim = Sim::new(img.files.clone());
            sim.borrow_mut().fault.punch_unsupported = true;
            let ndev = open_chain(&sim, 0, &g.cfg_small(), false).unwrap();
            let nres = block_on(guest_history(&ndev, hist, vsize));
            guest_runs += 1;
            evals += 1;
            if nres != mres {
                let p = nres.1.iter().zip(mres.1.iter()).position(|(a, b)| a != b);
                run.add(Violation {
                    prop: "C19".into(),
                    class: "model-without-punching:guest-history-differs".into(),
                    detail: format!("guest history {} [{}] on the host-file model with hole punching unsupported: results {:?} vs {:?}; first differing guest block {:?}", hi, hist_str(hist), nres.0, mres.0, p),
                    replay: json!({"engine":"enum-c19-guest","backend":"simio-nopunch","history":hist_str(hist)}),
                });
            }
        }
        for name in ["tokio", "sync", "uring"] {
            let path = dir.join(format!("guest-{}-{}.qcow2", name, hi));
            std::fs::write(&path, &img.files[0]).unwrap();
            let hist2 = hist.clone();
            let p2 = path.clone();
            let params2 = params.clone();
            let r: Result<(Vec<String>, Vec<Option<u64>>), String> = std::panic::catch_unwind(std::panic::AssertUnwindSafe(|| match name {
                "tokio" => {
                    let rt = tokio::runtime::Builder::new_current_thread().enable_all().build().unwrap();
                    rt.block_on(async {
                        let dev = qcow2_rs::utils::qcow2_setup_dev_tokio(&p2, &params2).await.map_err(|e| format!("{e:?}"))?;
                        Ok(guest_history(&dev, &hist2, vsize).await)
                    })
                }
                "sync" => {
                    let dev = qcow2_rs::utils::qcow2_setup_dev_sync(&p2, &params2).map_err(|e| format!("{e:?}"))?;
                    block_on(dev.qcow2_prep_io()).map_err(|e| format!("{e:?}"))?;
                    Ok(block_on(guest_history(&dev, &hist2, vsize)))
                }
                _ => tokio_uring::start(async {
                    let dev = qcow2_rs::utils::qcow2_setup_dev_uring(&p2, &params2).await.map_err(|e| format!("{e:?}"))?;
                    Ok(guest_history(&dev, &hist2, vsize).await)
                }),
            }))
            .unwrap_or_else(|e| Err(format!("panic: {}", panic_msg(e))));
            guest_runs += 1;
            evals += 1;
            match r {
                Ok(res) => {
                    if res != mres {
                        let p = res.1.iter().zip(mres.1.iter()).position(|(a, b)| a != b);
                        run.add(Violation {
                            prop: "C19".into(),
                            class: format!("{}:guest-history-differs", name),
                            detail: format!("guest history {} [{}] on backend {}: results {:?} vs model {:?}; first differing guest block {:?}", hi, hist_str(hist), name, res.0, mres.0, p),
                            replay: json!({"engine":"enum-c19-guest","backend":name,"history":hist_str(hist)}),
                        });
                    }
                }
                Err(e) => run.add(Violation { prop: "C19".into(), class: format!("{}:guest-history-failed", name), detail: format!("history {} on {}: {}", hi, name, e), replay: json!({"engine":"enum-c19-guest","backend":name,"history":hist_str(hist)}) }),
            }
            let _ = std::fs::remove_file(&path);
        }
    }
    // ---- stale free host clusters (released compressed clusters are not punched): partial writes
    // into fresh guest clusters must read zeros around them, with and without hole punching ----
    {
        let g = crate::images::G10;
        let cimg = crate::images::initial_images(&g, &["compressed"]).remove(0);
        let (cs, bs) = (g.cs(), g.bs());
        let w = |off: u64, len: u64, tag: u32| Op::Write { off, len: len as usize, tag };
        // fresh guest clusters of the L2 table that exists already: the next allocation is a data cluster
        let far = 5 * cs;
        let stale_hists: Vec<Vec<Op>> = vec![
            vec![w(0, bs, 1), w(cs, bs, 2), w(2 * cs, bs, 3), w(3 * cs, bs, 4), w(far + bs, bs, 5), w(far + cs, bs, 6), w(far + 2 * cs + bs, bs, 7)],
            vec![w(0, cs, 1), w(cs, cs, 2), w(2 * cs, cs, 3), w(3 * cs, cs, 4), Op::Flush, w(far, bs, 5), w(far + cs + bs, bs, 6), Op::Discard { off: far, len: cs }, w(far + 2 * cs + bs, bs, 7)],
        ];
        for (hi, hist) in stale_hists.iter().enumerate() {
            let mut outs = vec![];
            for nopunch in [false, true] {
                let sim = Sim::new(cimg.files.clone());
                sim.borrow_mut().fault.punch_unsupported = nopunch;
                let dev = open_chain(&sim, 0, &g.cfg_small(), false).unwrap();
                outs.push(block_on(guest_history(&dev, hist, g.vsize())));
                guest_runs += 1;
                evals += 1;
            }
            // reference: flat disk
            let mut rd = cimg.rd.clone();
            for op in hist {
                match op {
                    Op::Write { off, len, tag } => rd.write(*off, *len, *tag),
                    Op::Discard { off, len } => rd.discard(*off, *len),
                    _ => {}
                }
            }
            let want: Vec<Option<u64>> = rd.blocks.iter().map(|b| Some(*b)).collect();
            for (k, o) in outs.iter().enumerate() {
                if o.1 != want {
                    let p = o.1.iter().zip(want.iter()).position(|(a, b)| a != b);
                    run.add(Violation {
                        prop: "C19".into(),
                        class: format!("model{}:guest-content-differs-from-flat-disk", if k == 1 { "-without-punching" } else { "" }),
                        detail: format!("history {} [{}] on a compressed image (host-file model{}): first differing guest block {:?}", hi, hist_str(hist), if k == 1 { ", hole punching unsupported" } else { "" }, p),
                        replay: json!({"engine":"enum-c19-guest","backend":"simio","history":hist_str(hist)}),
                    });
                }
            }
        }
    }
    let _ = std::fs::remove_dir_all(&dir);
    let cov = json!({
        "evaluations": evals,
        "distinct_nontrivial": distinct.len(),
        "rule": format!("every sequence of length <= {} over the 27-request alphabet {{write, read, punch}} x offsets {{0, EOF-BS, EOF, EOF+BS}} x lengths {{BS, 2BS}} + zero-length read and write + fsync (BS = 4096, file of 4 blocks), plus 64 KiB / 2 MiB / 4 MiB writes and reads after every single request, executed on SimIo and on tokio, sync (buffered, O_DIRECT) and io_uring (buffered, O_DIRECT) over fresh files; results, read data, final file bytes and length compared; then 10 guest histories through the whole library on each backend; distinct_nontrivial = distinct model outcomes", if thorough { 3 } else { 2 }),
        "samples": seqs.iter().skip(30).step_by(seqs.len() / 5 + 1).map(|s| s.iter().map(|r| r.describe()).collect::<Vec<_>>().join(" ; ")).collect::<Vec<_>>(),
        "sequences": seqs.len(),
        "backends": names,
        "guest_history_runs": guest_runs,
        "exhaustive": true,
    });
    run.finish(cov, vec!["files live on the sandbox's root file system (ext4); other file systems and crash behaviour of the real backends are outside the bound".into()])
}
