//! Violations, known findings, replay files, evidence files, exit codes.
use serde_json::{json, Value};
use std::collections::BTreeMap;
use std::sync::Mutex;
use std::time::Instant;

#[derive(Clone, Debug)]
pub struct Violation {
    pub prop: String,
    /// stable signature: violated sub-oracle + discriminating features
    pub class: String,
    pub detail: String,
    /// everything needed to re-run this single case
    pub replay: Value,
}

pub struct Known {
    pub prop: String,
    pub class: String,
    pub note: String,
}

pub fn verif_dir() -> String {
    std::env::var("QMC_VERIF_DIR").unwrap_or_else(|_| "/verif".into())
}

pub fn load_known() -> Vec<Known> {
    let p = format!("{}/known_findings.json", verif_dir());
    let mut out = vec![];
    if let Ok(s) = std::fs::read_to_string(&p) {
        if let Ok(v) = serde_json::from_str::<Value>(&s) {
            if let Some(a) = v.get("known").and_then(|x| x.as_array()) {
                for k in a {
                    out.push(Known {
                        prop: k["property"].as_str().unwrap_or("").into(),
                        class: k["class"].as_str().unwrap_or("").into(),
                        note: k["what"].as_str().unwrap_or("").into(),
                    });
                }
            }
        }
    }
    out
}

/// glob match: '*' matches any (possibly empty) substring
fn class_matches(pattern: &str, class: &str) -> bool {
    let parts: Vec<&str> = pattern.split('*').collect();
    if parts.len() == 1 {
        return pattern == class;
    }
    let mut pos = 0usize;
    for (i, p) in parts.iter().enumerate() {
        if p.is_empty() {
            continue;
        }
        if i == 0 {
            if !class.starts_with(p) {
                return false;
            }
            pos = p.len();
        } else if i == parts.len() - 1 {
            return class.len() >= pos + p.len() && class.ends_with(p);
        } else {
            match class[pos..].find(p) {
                Some(k) => pos += k + p.len(),
                None => return false,
            }
        }
    }
    true
}

pub struct Run {
    pub prop: String,
    pub tier: String,
    pub seed: i64,
    pub start: Instant,
    pub violations: Mutex<Vec<Violation>>,
    pub level: String,
}

impl Run {
    pub fn new(prop: &str, level: &str) -> Run {
        let tier = std::env::var("VERIF_TIER").unwrap_or_else(|_| "quick".into());
        let tier = if tier == "thorough" { "thorough".to_string() } else { "quick".to_string() };
        let seed = std::env::var("VERIF_SEED").ok().and_then(|s| s.parse::<i64>().ok()).unwrap_or(0);
        *crate::watchdog::PROP.lock().unwrap() = prop.to_string();
        Run {
            prop: prop.into(),
            tier,
            seed,
            start: Instant::now(),
            violations: Mutex::new(vec![]),
            level: level.into(),
        }
    }
    /// The deep plan. The checks of C09 C11 C13 C15 cost seconds even then, so their quick
    /// tier runs it as well.
    pub fn thorough(&self) -> bool {
        self.tier == "thorough" || ["C09", "C11", "C13", "C15"].contains(&self.prop.as_str())
    }
    pub fn add(&self, v: Violation) {
        self.violations.lock().unwrap().push(v);
    }
    pub fn add_all(&self, vs: Vec<Violation>) {
        let mut g = self.violations.lock().unwrap();
        for v in vs {
            // keep memory bounded: at most 50 instances per class
            if g.iter().filter(|x| x.class == v.class && x.prop == v.prop).count() < 50 {
                g.push(v);
            }
        }
    }

    /// Write evidence, replay files; print KNOWN-FINDING / VIOLATION lines; return the exit code.
    pub fn finish(&self, coverage: Value, assumptions: Vec<String>) -> i32 {
        let known = load_known();
        let all = self.violations.lock().unwrap();
        // only this property's violations count for this check
        let mut by_class: BTreeMap<String, Vec<&Violation>> = BTreeMap::new();
        for v in all.iter().filter(|v| v.prop == self.prop) {
            by_class.entry(v.class.clone()).or_default().push(v);
        }
        let mut new_violations = 0;
        let mut known_hit = vec![];
        let dir = format!("{}/replays/{}", verif_dir(), self.prop);
        let mut lines = vec![];
        let mut known_lines: BTreeMap<String, (usize, Vec<String>, String)> = BTreeMap::new();
        // the directory describes the latest run only
        if let Ok(rd) = std::fs::read_dir(&dir) {
            for f in rd.flatten() {
                if f.path().extension().map(|e| e == "json").unwrap_or(false) {
                    let _ = std::fs::remove_file(f.path());
                }
            }
        }
        for (class, vs) in by_class.iter() {
            // shortest instance = smallest replay json
            let v = vs.iter().min_by_key(|v| v.replay.to_string().len()).unwrap();
            let _ = std::fs::create_dir_all(&dir);
            let mut h = std::collections::hash_map::DefaultHasher::new();
            use std::hash::{Hash, Hasher};
            class.hash(&mut h);
            if let Some(k) = known.iter().find(|k| k.prop == self.prop && class_matches(&k.class, class)) {
                let path = format!("{}/known-{:016x}.json", dir, h.finish());
                let body = json!({"property": self.prop, "class": class, "detail": v.detail, "instances_this_run": vs.len(), "known_finding": k.note, "replay": v.replay});
                let _ = std::fs::write(&path, serde_json::to_string_pretty(&body).unwrap());
                let e = known_lines.entry(k.note.clone()).or_insert((0, vec![], path));
                e.0 += vs.len();
                e.1.push(class.clone());
                known_hit.push(json!({"class": class, "instances": vs.len()}));
                continue;
            }
            new_violations += 1;
            let path = format!("{}/{:016x}.json", dir, h.finish());
            let body = json!({
                "property": self.prop,
                "class": class,
                "detail": v.detail,
                "instances_this_run": vs.len(),
                "replay": v.replay,
            });
            let _ = std::fs::write(&path, serde_json::to_string_pretty(&body).unwrap());
            lines.push(format!("VIOLATION property={} replay={}", self.prop, path));
            lines.push(format!("  class: {}", class));
            lines.push(format!("  detail: {}", v.detail));
        }
        for (note, (n, classes, path)) in known_lines.iter() {
            lines.insert(0, format!("KNOWN-FINDING: property={} {} [{} instance(s) this run in {} class(es); replay {}]", self.prop, note, n, classes.len(), path));
        }
        let wall = self.start.elapsed().as_secs_f64();
        let mut cov = coverage;
        if let Some(o) = cov.as_object_mut() {
            o.insert("known_findings_hit".into(), json!(known_hit));
        }
        let ev = json!({
            "property_id": self.prop,
            "tier": self.tier,
            "seed": self.seed,
            "level": self.level,
            "coverage": cov,
            "assumptions": assumptions,
            "wall_s": wall,
            "violations": new_violations,
        });
        let evdir = format!("{}/evidence", verif_dir());
        let _ = std::fs::create_dir_all(&evdir);
        let evpath = format!("{}/{}.json", evdir, self.prop);
        if let Err(e) = std::fs::write(&evpath, serde_json::to_string_pretty(&ev).unwrap()) {
            eprintln!("cannot write evidence {}: {}", evpath, e);
            return 2;
        }
        if self.tier == "thorough" && new_violations == 0 {
            // keep the record of the last clean deep run next to the (quick-tier) evidence that is committed
            let tdir = format!("{}/thorough", evdir);
            let _ = std::fs::create_dir_all(&tdir);
            let _ = std::fs::write(format!("{}/{}.json", tdir, self.prop), serde_json::to_string_pretty(&ev).unwrap());
        }
        for l in lines {
            println!("{}", l);
        }
        println!(
            "{} tier={} wall={:.1}s new-violation-classes={} known-classes-hit={}",
            self.prop,
            self.tier,
            wall,
            new_violations,
            known_hit.len()
        );
        if new_violations > 0 {
            1
        } else {
            0
        }
    }
}
