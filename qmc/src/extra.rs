//! images used by single checks (C08 fragmentation, C12 growth, ...)
use crate::images::ImageSet;

pub fn find_extra_image(_name: &str) -> Option<ImageSet> {
    None
}
