//! images used by single checks (C08 fragmentation, C12 growth, ...)
use crate::images::{from_specs, Geo, ImageSet};
use crate::spec::{GKind, ImageSpec};

/// G10 with 64-bit refcounts: refblock = 128 entries, 512-byte refblock slices = 64 entries.
pub const GF: Geo = Geo { name: "GF", cluster_bits: 10, order: 6, version: 3, bs_bits: 9, l2_slice_bits: 9, rb_slice_bits: 9, tables: 3, extra_clusters: 0 };

/// Fragmented host space: refblock slice 0 (host clusters 0..63) is full except for
/// cluster 40 and its 2-cluster tail (62, 63); cluster 64 (index 0 of slice 1) is in use.
pub fn frag_image() -> ImageSet {
    let g = GF;
    let mut s = ImageSpec::new(g.cluster_bits, g.order, g.vsize());
    let ncl = s.guest_clusters();
    s.kinds = vec![GKind::Unalloc; ncl];
    // header, reftable, refblock, L1, one L2 table = 5 clusters; 57 data clusters fill 5..=64 minus the 3 skipped
    for c in 0..57 {
        s.kinds[c] = GKind::Data;
    }
    s.skip_host = vec![40, 62, 63];
    let img = from_specs("GF-frag", "frag", vec![s]);
    img
}

pub fn find_extra_image(name: &str) -> Option<ImageSet> {
    match name {
        "GF-frag" => Some(frag_image()),
        _ => None,
    }
}
