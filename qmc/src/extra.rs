//! images used by single checks (C08 fragmentation, C12 growth, ...)
use crate::images::{from_specs, Geo, ImageSet};
use crate::spec::{GKind, ImageSpec};

/// G10 with 64-bit refcounts: refblock = 128 entries, 512-byte refblock slices = 64 entries.
pub const GF: Geo = Geo { name: "GF", cluster_bits: 10, order: 6, version: 3, bs_bits: 9, l2_slice_bits: 9, rb_slice_bits: 9, tables: 3, extra_clusters: 0 };

/// Fragmented host space: refblock slice 0 (host clusters 0..63) is full except for
/// cluster 40 and its 2-cluster tail (62, 63); cluster 64 (index 0 of slice 1) is in use.
pub fn frag_image() -> ImageSet {
    let g = GF;
    let mut s = ImageSpec::new(g.cluster_bits, g.order, g.vsize());
    let ncl = s.guest_clusters();
    s.kinds = vec![GKind::Unalloc; ncl];
    // header, reftable, refblock, L1, one L2 table = 5 clusters; 57 data clusters fill 5..=64 minus the 3 skipped
    for c in 0..57 {
        s.kinds[c] = GKind::Data;
    }
    s.skip_host = vec![40, 62, 63];
    let img = from_specs("GF-frag", "frag", vec![s]);
    img
}

/// G9 geometry (512-byte clusters, 64-bit refcounts: refblock = 64 clusters, one
/// refcount-table cluster = 64 refblocks = 2 MiB of host file) with `tables` L2 tables of guest space
pub fn g9_wide(tables: u64) -> Geo {
    Geo { name: "G9w", cluster_bits: 9, order: 6, version: 3, bs_bits: 9, l2_slice_bits: 9, rb_slice_bits: 9, tables, extra_clusters: 0 }
}

/// host clusters 0..used-1 in use (data clusters fill up), the next allocation is cluster `used`
pub fn filled_image(name: &str, kind: &str, tables: u64, used: usize) -> ImageSet {
    filled_image_geo(name, kind, &g9_wide(tables), used)
}

/// GF geometry (1 KiB clusters, 128-cluster refblocks in two 64-entry slices) with 125 of the
/// first refblock's clusters in use: the next multi-cluster allocation is partial and the one
/// after it creates refblock 1, i.e. loads a third refblock slice into a 2-slice cache
pub fn gf_filled_image() -> ImageSet {
    filled_image_geo("GF-filled", "filled", &GF, 125)
}

/// GF geometry, refblock 0 (two 64-entry slices) in use except for the last two clusters of
/// each slice; refblock 1 does not exist yet. Four single-cluster allocations dirty both slices,
/// the fifth creates refblock 1, i.e. loads a third slice into a 2-slice cache and evicts a dirty one.
pub fn gf_holes_image() -> ImageSet {
    let g = GF;
    let mut s = ImageSpec::new(g.cluster_bits, g.order, g.vsize());
    let ncl = s.guest_clusters();
    s.kinds = vec![GKind::Unalloc; ncl];
    for c in 0..118 {
        s.kinds[c] = GKind::Data;
    }
    s.skip_host = vec![61, 62, 63, 126, 127];
    from_specs("GF-holes", "filled", vec![s])
}

pub fn filled_image_geo(name: &str, kind: &str, g: &Geo, used: usize) -> ImageSet {
    let g = g.clone();
    let mut s = ImageSpec::new(g.cluster_bits, g.order, g.vsize());
    let ncl = s.guest_clusters();
    s.kinds = vec![GKind::Unalloc; ncl];
    // largest number of data clusters whose image has at most `used` host clusters
    let have = |n: usize, s: &mut ImageSpec| -> usize {
        for c in 0..ncl {
            s.kinds[c] = if c < n { GKind::Data } else { GKind::Unalloc };
        }
        crate::spec::build_image(s).bytes.len() >> g.cluster_bits
    };
    let (mut lo, mut hi) = (1usize, used.min(ncl));
    while lo < hi {
        let mid = (lo + hi + 1) / 2;
        if have(mid, &mut s) <= used {
            lo = mid;
        } else {
            hi = mid - 1;
        }
    }
    let _ = have(lo, &mut s);
    from_specs(name, kind, vec![s])
}

/// refblock 0 (64 clusters) is full but for its last two clusters
pub fn rb_edge_image() -> ImageSet {
    filled_image("G9w-rb-edge", "rb-edge", 3, 62)
}

/// 64 refblocks x 64 clusters = 4096 clusters is what the one-cluster refcount table covers; 4094 are in use
pub fn rt_edge_image() -> ImageSet {
    filled_image("G9w-rt-edge", "rt-edge", 140, 4094)
}

/// 1 KiB clusters over 512-byte blocks, 64-bit refcounts: one refcount-table cluster = 128 refblocks
/// of 128 clusters = 16 MiB of host file
pub fn g10_wide(tables: u64) -> Geo {
    Geo { name: "G10w", cluster_bits: 10, order: 6, version: 3, bs_bits: 9, l2_slice_bits: 9, rb_slice_bits: 9, tables, extra_clusters: 0 }
}

/// the refcount table's end with clusters bigger than a block: the relocated table grows by one
/// block, i.e. its last cluster is used only partly (16382 of 16384 clusters in use; 16 MiB file)
pub fn rt_edge_1k_image() -> ImageSet {
    filled_image_geo("G10w-rt-edge", "rt-edge-1k", &g10_wide(136), 128 * 128 - 2)
}

/// as rt_edge_image(), but the virtual size (2 MiB) equals what the one-cluster refcount table covers:
/// a grown table holds more entries than the virtual size alone suggests
pub fn rt_edge_tight_image() -> ImageSet {
    filled_image("G9w64-rt-edge", "rt-edge-tight", 64, 4094)
}

/// refcount blocks 0..62 exist and are full but for two clusters: the next allocations create
/// refcount block 63, the last entry of the refcount table's first (only) 512-byte block
pub fn rb63_edge_image() -> ImageSet {
    filled_image("G9w-rb63-edge", "rb63-edge", 140, 63 * 64 - 2)
}

/// the header lists one L1 entry although the virtual size needs 192 (three L1 clusters)
pub fn short_l1_image() -> ImageSet {
    let g = g9_wide(192);
    let mut s = ImageSpec::new(g.cluster_bits, g.order, g.vsize());
    let ncl = s.guest_clusters();
    s.kinds = vec![GKind::Unalloc; ncl];
    s.kinds[0] = GKind::Data;
    s.kinds[1] = GKind::Data;
    s.short_l1 = true;
    s.l1_tail_junk = true;
    from_specs("G9w-short-l1", "shortl1", vec![s])
}

/// l1_size 1 of 130: the relocated table has an entry count that is no multiple of the entries per block
pub fn short_l1_odd_image() -> ImageSet {
    let g = g9_wide(130);
    let mut s = ImageSpec::new(g.cluster_bits, g.order, g.vsize());
    let ncl = s.guest_clusters();
    s.kinds = vec![GKind::Unalloc; ncl];
    s.kinds[0] = GKind::Data;
    s.kinds[1] = GKind::Data;
    s.short_l1 = true;
    s.l1_tail_junk = true;
    from_specs("G9w-short-l1-odd", "shortl1-odd", vec![s])
}

/// l1_size 1 of 192 and only two free clusters left under refcount block 0: the relocated table
/// (3 clusters) does not fit into the lowest free run
pub fn short_l1_rb_edge_image() -> ImageSet {
    let g = g9_wide(192);
    let mut s = ImageSpec::new(g.cluster_bits, g.order, g.vsize());
    let ncl = s.guest_clusters();
    s.kinds = vec![GKind::Unalloc; ncl];
    // header, reftable, refblock, L1, L2 + 57 data clusters = 62 of 64
    for c in 0..57 {
        s.kinds[c] = GKind::Data;
    }
    s.short_l1 = true;
    s.l1_tail_junk = true;
    from_specs("G9w-short-l1-rb-edge", "shortl1-rbedge", vec![s])
}

/// G9 (64 clusters per refcount block): 57 data clusters, then two compressed clusters whose
/// packed streams occupy host clusters 63 and 64, i.e. straddle the boundary between the ranges
/// of refcount block 0 and 1
pub fn compressed_rb_straddle_image() -> ImageSet {
    let g = crate::images::G9;
    let mut s = ImageSpec::new(g.cluster_bits, g.order, g.vsize());
    let ncl = s.guest_clusters();
    s.kinds = vec![GKind::Unalloc; ncl];
    for c in 0..57 {
        s.kinds[c] = GKind::Data;
    }
    s.kinds[57] = GKind::Compressed;
    s.kinds[58] = GKind::Compressed;
    s.comp_pad = (g.cs() - 8) as usize;
    s.reftable_clusters = 1;
    s.min_file_clusters = 66; // two refcount blocks
    from_specs("G9-compressed-rb-straddle", "compressed", vec![s])
}

/// the header lists 128 L1 entries (two L1 clusters, both in use) although the virtual size needs 192:
/// the table cannot grow in place, and its two old clusters are the lowest free ones afterwards
pub fn short_l1_two_image() -> ImageSet {
    let g = g9_wide(192);
    let mut s = ImageSpec::new(g.cluster_bits, g.order, g.vsize());
    let ncl = s.guest_clusters();
    s.kinds = vec![GKind::Unalloc; ncl];
    for c in [0usize, 1, 64 * 64, 64 * 64 + 1, 127 * 64] {
        s.kinds[c] = GKind::Data;
    }
    s.short_l1 = true;
    s.l1_tail_junk = true;
    from_specs("G9w-short-l1-two", "shortl1-two", vec![s])
}

pub fn find_extra_image(name: &str) -> Option<ImageSet> {
    match name {
        "GF-frag" => Some(frag_image()),
        "G9w-rb-edge" => Some(rb_edge_image()),
        "G9w-rt-edge" => Some(rt_edge_image()),
        "G9w-rb63-edge" => Some(rb63_edge_image()),
        "G10w-rt-edge" => Some(rt_edge_1k_image()),
        "G9w64-rt-edge" => Some(rt_edge_tight_image()),
        "GF-filled" => Some(gf_filled_image()),
        "GF-holes" => Some(gf_holes_image()),
        "G9w-short-l1" => Some(short_l1_image()),
        "G9w-short-l1-two" => Some(short_l1_two_image()),
        "G9w-short-l1-odd" => Some(short_l1_odd_image()),
        "G9-compressed-rb-straddle" => Some(compressed_rb_straddle_image()),
        "G9w-short-l1-rb-edge" => Some(short_l1_rb_edge_image()),
        _ => None,
    }
}

/// refblock slices and L2 slices of different sizes (every other geometry uses one size for both):
/// 1 KiB clusters; `l2_bits`/`rb_bits` are the slice sizes. A few data clusters, then free clusters
/// holding junk (where the next L2 table and data cluster are allocated), then more data.
pub fn mixed_slice_geo(l2_bits: u8, rb_bits: u8, tables: u64) -> Geo {
    Geo { name: "G10mix", cluster_bits: 10, order: 4, version: 3, bs_bits: 9, l2_slice_bits: l2_bits, rb_slice_bits: rb_bits, tables, extra_clusters: 0 }
}

pub fn mixed_slice_image(g: &Geo) -> ImageSet {
    let mut s = ImageSpec::new(g.cluster_bits, g.order, g.vsize());
    let ncl = s.guest_clusters();
    s.kinds = vec![GKind::Unalloc; ncl];
    for c in 0..8 {
        s.kinds[c] = GKind::Data;
    }
    s.skip_host = vec![6, 7, 8, 9];
    s.free_junk = true;
    from_specs(&format!("G10mix-l2s{}-rbs{}", g.l2_slice_bits, g.rb_slice_bits), "mixed-slices", vec![s])
}
