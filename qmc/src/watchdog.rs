//! Watchdog: a sequential execution that never returns (a CPU loop or a
//! self-deadlock inside the library) cannot be interrupted in-process. Every
//! evaluation registers what it is running; a monitor thread reports the case
//! and ends the process with a VIOLATION line when one runs longer than the limit.
use std::sync::Mutex;
use std::time::Instant;

static SLOTS: Mutex<Vec<Option<(Instant, String)>>> = Mutex::new(Vec::new());
static STARTED: Mutex<bool> = Mutex::new(false);
pub static PROP: Mutex<String> = Mutex::new(String::new());

pub struct Guard(usize);
impl Drop for Guard {
    fn drop(&mut self) {
        SLOTS.lock().unwrap()[self.0] = None;
    }
}

pub fn enter<F: FnOnce() -> String>(what: F) -> Guard {
    start();
    let w = what();
    let mut s = SLOTS.lock().unwrap();
    let idx = match s.iter().position(|x| x.is_none()) {
        Some(i) => i,
        None => {
            s.push(None);
            s.len() - 1
        }
    };
    s[idx] = Some((Instant::now(), w));
    Guard(idx)
}

fn start() {
    let mut st = STARTED.lock().unwrap();
    if *st {
        return;
    }
    *st = true;
    let limit: u64 = std::env::var("QMC_HANG_SECS").ok().and_then(|x| x.parse().ok()).unwrap_or(240);
    std::thread::spawn(move || loop {
        std::thread::sleep(std::time::Duration::from_secs(1));
        let s = SLOTS.lock().unwrap();
        for x in s.iter().flatten() {
            if x.0.elapsed().as_secs() > limit {
                let prop = PROP.lock().unwrap().clone();
                let dir = format!("{}/replays/{}", crate::report::verif_dir(), prop);
                let _ = std::fs::create_dir_all(&dir);
                let path = format!("{}/hang.json", dir);
                let _ = std::fs::write(&path, serde_json::json!({"property": prop, "class": "hang", "detail": x.1}).to_string());
                println!("VIOLATION property={} replay={}", prop, path);
                println!("  class: hang (an execution did not return within {} s)", limit);
                println!("  detail: {}", x.1);
                std::process::exit(1);
            }
        }
    });
}
