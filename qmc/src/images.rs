//! Initial images and device configurations (DESIGN §3).
use crate::spec::{build_image, Built, GKind, ImageSpec};
use crate::world::{DevCfg, Op, RefDisk};
use qcow2_rs::meta::Qcow2Header;

#[derive(Clone)]
pub struct ImageSet {
    pub name: String,
    /// "libfmt" | "plain" | "data" | "zero" | "compressed" | "backing" | ...
    pub kind: String,
    pub files: Vec<Vec<u8>>,
    pub rd: RefDisk,
    pub cluster_bits: u32,
    pub refcount_order: u32,
    pub built: Vec<Built>,
}

/// image produced by the library's own formatter (as `make_temp_qcow2_img` does)
pub fn lib_formatted(cluster_bits: u32, order: u32, vsize: u64) -> ImageSet {
    let bs = 512usize;
    let (rc_t, rc_b, _) = Qcow2Header::calculate_meta_params(vsize, cluster_bits as usize, order as u8, bs);
    let clusters = 1 + rc_t.1 + rc_b.1;
    let mut buf = vec![0u8; ((clusters as usize) << cluster_bits) + 512];
    Qcow2Header::format_qcow2(&mut buf, vsize, cluster_bits as usize, order as u8, bs).unwrap();
    ImageSet {
        name: format!("libfmt-c{}-r{}-v{}", cluster_bits, order, vsize),
        kind: "libfmt".into(),
        files: vec![buf],
        rd: RefDisk::empty(1usize << cluster_bits, vsize),
        cluster_bits,
        refcount_order: order,
        built: vec![],
    }
}

pub fn from_specs(name: &str, kind: &str, specs: Vec<ImageSpec>) -> ImageSet {
    let built: Vec<Built> = specs.iter().map(build_image).collect();
    let refs: Vec<&Built> = built.iter().collect();
    let rd = RefDisk::from_chain(&refs);
    ImageSet {
        name: name.into(),
        kind: kind.into(),
        files: built.iter().map(|b| b.bytes.clone()).collect(),
        rd,
        cluster_bits: specs[0].cluster_bits,
        refcount_order: specs[0].refcount_order,
        built,
    }
}

#[derive(Clone, Debug)]
pub struct Geo {
    pub name: &'static str,
    pub cluster_bits: u32,
    pub order: u32,
    pub version: u32,
    pub bs_bits: u8,
    pub l2_slice_bits: u8,
    pub rb_slice_bits: u8,
    /// number of L2 tables the virtual size spans
    pub tables: u64,
    pub extra_clusters: u64,
}

impl Geo {
    pub fn cs(&self) -> u64 {
        1u64 << self.cluster_bits
    }
    pub fn bs(&self) -> u64 {
        1u64 << self.bs_bits
    }
    /// guest bytes per L2 table
    pub fn tb(&self) -> u64 {
        (self.cs() / 8) * self.cs()
    }
    /// guest bytes per L2 slice
    pub fn sl(&self) -> u64 {
        ((1u64 << self.l2_slice_bits) / 8) * self.cs()
    }
    pub fn vsize(&self) -> u64 {
        self.tables * self.tb() + self.extra_clusters * self.cs()
    }
    pub fn cfg_small(&self) -> DevCfg {
        DevCfg {
            bs_bits: self.bs_bits,
            l2: Some((self.l2_slice_bits, 2usize << self.l2_slice_bits)),
            rb: Some((self.rb_slice_bits, 2usize << self.rb_slice_bits)),
        }
    }
    pub fn cfg_ample(&self) -> DevCfg {
        DevCfg {
            bs_bits: self.bs_bits,
            l2: Some((self.l2_slice_bits, 64usize << self.l2_slice_bits)),
            rb: Some((self.rb_slice_bits, 64usize << self.rb_slice_bits)),
        }
    }
    /// alternate legal parameters: whole-cluster slices, 3-slice caches
    pub fn cfg_alt(&self) -> DevCfg {
        let cb = self.cluster_bits.min(12) as u8;
        let cb = cb.max(self.bs_bits);
        DevCfg { bs_bits: self.bs_bits, l2: Some((cb, 3usize << cb)), rb: Some((cb, 3usize << cb)) }
    }
    pub fn cfg_default(&self) -> DevCfg {
        DevCfg { bs_bits: self.bs_bits, l2: None, rb: None }
    }
}

pub const G9: Geo = Geo { name: "G9", cluster_bits: 9, order: 6, version: 3, bs_bits: 9, l2_slice_bits: 9, rb_slice_bits: 9, tables: 3, extra_clusters: 0 };
pub const G10: Geo = Geo { name: "G10", cluster_bits: 10, order: 4, version: 3, bs_bits: 9, l2_slice_bits: 9, rb_slice_bits: 9, tables: 3, extra_clusters: 0 };
pub const G12: Geo = Geo { name: "G12", cluster_bits: 12, order: 2, version: 3, bs_bits: 9, l2_slice_bits: 9, rb_slice_bits: 9, tables: 1, extra_clusters: 16 };
pub const G12B: Geo = Geo { name: "G12b4k", cluster_bits: 12, order: 2, version: 3, bs_bits: 12, l2_slice_bits: 12, rb_slice_bits: 12, tables: 1, extra_clusters: 16 };
pub const G12R0: Geo = Geo { name: "G12r0", cluster_bits: 12, order: 0, version: 3, bs_bits: 9, l2_slice_bits: 9, rb_slice_bits: 9, tables: 1, extra_clusters: 16 };
pub const G12R1: Geo = Geo { name: "G12r1", cluster_bits: 12, order: 1, version: 3, bs_bits: 10, l2_slice_bits: 10, rb_slice_bits: 10, tables: 1, extra_clusters: 16 };
pub const G12R3: Geo = Geo { name: "G12r3", cluster_bits: 12, order: 3, version: 3, bs_bits: 11, l2_slice_bits: 11, rb_slice_bits: 11, tables: 1, extra_clusters: 16 };
pub const G12V2: Geo = Geo { name: "G12v2", cluster_bits: 12, order: 4, version: 2, bs_bits: 9, l2_slice_bits: 12, rb_slice_bits: 12, tables: 1, extra_clusters: 16 };
pub const G16: Geo = Geo { name: "G16", cluster_bits: 16, order: 4, version: 3, bs_bits: 9, l2_slice_bits: 12, rb_slice_bits: 12, tables: 0, extra_clusters: 1024 };

/// The operation alphabet of DESIGN §2.3, generated from the geometry's boundaries.
pub fn alphabet(g: &Geo, with_reopen: bool) -> Vec<Op> {
    let (bs, cs, sl, tb, v) = (g.bs(), g.cs(), g.sl(), g.tb(), g.vsize());
    let mut ops: Vec<Op> = vec![];
    let mut tag = 1u32;
    let mut w = |off: u64, len: u64, ops: &mut Vec<Op>| {
        if off + len <= v && len > 0 {
            let o = Op::Write { off, len: len as usize, tag };
            tag += 1;
            ops.push(o);
        }
    };
    w(0, bs, &mut ops); // first block of cluster 0
    w(cs - bs, 2 * bs, &mut ops); // straddling two clusters
    w(cs, cs, &mut ops); // whole cluster 1
    if sl < tb {
        w(sl - bs, 2 * bs, &mut ops); // straddling a slice boundary
    }
    if v > tb {
        w(tb - cs, 2 * cs, &mut ops); // spanning two L2 tables
    }
    w(0, 3 * cs, &mut ops); // multi-cluster batch
    if cs >= 4 * bs {
        w(5 * cs + bs, bs, &mut ops); // inside a fresh cluster, touching neither its start nor its end
    }
    w(v - bs, bs, &mut ops); // last block
    if v > 2 * tb {
        w(2 * tb + cs, bs, &mut ops); // one block in the third table
    }
    ops.push(Op::Read { off: 0, len: bs as usize });
    ops.push(Op::Read { off: 2 * cs, len: cs as usize }); // the whole third cluster
    if v > tb {
        ops.push(Op::Read { off: tb - cs, len: 2 * cs as usize });
    }
    if v > 2 * tb {
        ops.push(Op::Read { off: 2 * tb + cs, len: bs as usize });
    }
    ops.push(Op::Discard { off: cs, len: cs });
    ops.push(Op::Discard { off: 0, len: 2 * cs });
    ops.push(Op::Discard { off: bs, len: 2 * cs + bs });
    ops.push(Op::Discard { off: 0, len: 3 * cs });
    ops.push(Op::Discard { off: v - cs, len: 2 * cs });
    if sl < tb && sl >= 2 * cs {
        // starts in the middle of an L2 slice and ends in the next one
        ops.push(Op::Discard { off: sl - cs, len: 2 * cs });
    }
    ops.push(Op::Flush);
    ops.push(Op::Sync);
    ops.push(Op::Shrink);
    if with_reopen {
        ops.push(Op::Reopen);
        ops.push(Op::ReopenAlt);
    }
    ops
}

/// pre-built initial images for a geometry
pub fn initial_images(g: &Geo, which: &[&str]) -> Vec<ImageSet> {
    let v = g.vsize();
    let mut out = vec![];
    let base = |tagb: u32| {
        let mut s = ImageSpec::new(g.cluster_bits, g.order, v);
        s.version = g.version;
        s.tag_base = tagb;
        s
    };
    let ncl = (v >> g.cluster_bits) as usize;
    let l2e = (g.cs() / 8) as usize;
    for w in which {
        match *w {
            "libfmt" => out.push(lib_formatted(g.cluster_bits, g.order, v)),
            "empty" => out.push(from_specs(&format!("{}-empty", g.name), "plain", vec![base(0xB00000)])),
            "data" => {
                // clusters 0,1,2 and the first cluster of table 2 pre-filled; refcount structures last
                let mut s = base(0xB00000);
                s.kinds = vec![GKind::Unalloc; ncl];
                for c in [0usize, 1, 2, l2e.min(ncl - 1)] {
                    s.kinds[c] = GKind::Data;
                }
                s.refcount_last = true;
                s.gap = 1;
                s.free_junk = true;
                out.push(from_specs(&format!("{}-data", g.name), "data", vec![s]));
            }
            "zero" => {
                let mut s = base(0xB00000);
                s.kinds = vec![GKind::Unalloc; ncl];
                s.kinds[0] = GKind::Zero;
                s.kinds[1] = GKind::ZeroPrealloc;
                s.kinds[2] = GKind::Data;
                out.push(from_specs(&format!("{}-zero", g.name), "zero", vec![s]));
            }
            "zero-prealloc" => {
                // zero-flagged clusters that keep their host cluster, next to each other: a
                // multi-cluster write over them needs no new allocation
                let mut s = base(0xA00000);
                s.kinds = vec![GKind::Unalloc; ncl];
                s.kinds[0] = GKind::ZeroPrealloc;
                s.kinds[1] = GKind::ZeroPrealloc;
                s.kinds[2] = GKind::Data;
                s.kinds[3] = GKind::Zero;
                out.push(from_specs(&format!("{}-zero-prealloc", g.name), "zero", vec![s]));
            }
            "compressed" => {
                let mut s = base(0xB00000);
                s.kinds = vec![GKind::Unalloc; ncl];
                s.kinds[0] = GKind::Compressed;
                s.kinds[1] = GKind::Compressed;
                s.kinds[2] = GKind::Compressed;
                s.kinds[3] = GKind::Data;
                s.comp_pad = 100;
                out.push(from_specs(&format!("{}-compressed", g.name), "compressed", vec![s]));
            }
            "compressed-straddle" => {
                // the first stream starts 8 bytes before a host cluster boundary and crosses it;
                // the second one shares the following host cluster with the first one's tail
                let mut s = base(0xB00000);
                s.kinds = vec![GKind::Unalloc; ncl];
                s.kinds[0] = GKind::Compressed;
                s.kinds[1] = GKind::Compressed;
                s.kinds[3] = GKind::Compressed;
                s.comp_pad = (g.cs() - 8) as usize;
                out.push(from_specs(&format!("{}-compressed-straddle", g.name), "compressed", vec![s]));
            }
            "compressed-ragged" => {
                // the file ends right after the last compressed stream (a multiple of 512, not of
                // bigger block sizes), and the last data cluster is only partly inside the file
                let mut s = base(0xB00000);
                s.kinds = vec![GKind::Unalloc; ncl];
                s.kinds[0] = GKind::Data;
                s.kinds[1] = GKind::Compressed;
                s.kinds[2] = GKind::Compressed;
                s.refcount_last = false;
                s.ragged_end = true;
                out.push(from_specs(&format!("{}-compressed-ragged", g.name), "compressed", vec![s]));
            }
            "data-ragged" => {
                // the host file ends inside its last data cluster, at a multiple of 512 that is no
                // multiple of bigger block sizes (an image written with 512-byte blocks and only
                // partly filled last cluster); what the file doesn't hold reads as zeros
                let mut s = base(0xB00000);
                s.kinds = vec![GKind::Unalloc; ncl];
                s.kinds[0] = GKind::Data;
                s.kinds[1] = GKind::Data;
                s.kinds[2] = GKind::Data;
                s.refcount_last = false;
                let mut img = from_specs(&format!("{}-data-ragged", g.name), "data", vec![s]);
                let bpc = (g.cs() as usize) / 512;
                if bpc >= 8 {
                    let keep = 3usize; // blocks of guest cluster 2 that stay
                    let host = img.built[0].truth[2].host_off as usize;
                    if host + g.cs() as usize == img.files[0].len() {
                        img.files[0].truncate(host + keep * 512);
                        for b in keep..bpc {
                            img.rd.blocks[2 * bpc + b] = 0;
                        }
                        out.push(img);
                    }
                }
            }
            "compressed-boundary" => {
                let mut s = base(0xB00000);
                s.kinds = vec![GKind::Unalloc; ncl];
                s.kinds[0] = GKind::Compressed;
                s.kinds[1] = GKind::Compressed;
                s.comp_end_on_boundary = true;
                out.push(from_specs(&format!("{}-compressed-boundary", g.name), "compressed", vec![s]));
            }
            "backing" | "backing-short" | "backing-long" => {
                let bv = match *w {
                    "backing-short" => g.cs() + g.cs() / 2 / 512 * 512, // 1.5 clusters
                    "backing-long" => v + 4 * g.cs(),
                    _ => v,
                };
                let bv = bv.max(512);
                let mut b = ImageSpec::new(g.cluster_bits, g.order, bv);
                b.version = g.version;
                b.tag_base = 0xBA0000;
                let bcl = b.guest_clusters();
                b.kinds = vec![GKind::Unalloc; bcl];
                for c in 0..bcl.min(4) {
                    b.kinds[c] = GKind::Data;
                }
                if bcl > l2e {
                    b.kinds[l2e] = GKind::Data;
                }
                let mut t = base(0xB00000);
                t.backing_name = Some("sim1".into());
                t.kinds = vec![GKind::Unalloc; ncl];
                if ncl > 3 {
                    t.kinds[3] = GKind::Data; // one own cluster shadows the backing data
                }
                out.push(from_specs(&format!("{}-{}", g.name, w), "backing", vec![t, b]));
            }
            "chain2" => {
                let mut b2 = ImageSpec::new(g.cluster_bits, g.order, v);
                b2.version = g.version;
                b2.tag_base = 0xBB0000;
                b2.kinds = vec![GKind::Unalloc; ncl];
                for c in 0..4.min(ncl) {
                    b2.kinds[c] = GKind::Data;
                }
                let mut b1 = ImageSpec::new(g.cluster_bits, g.order, v);
                b1.version = g.version;
                b1.tag_base = 0xBA0000;
                b1.backing_name = Some("sim2".into());
                b1.kinds = vec![GKind::Unalloc; ncl];
                b1.kinds[1] = GKind::Data;
                let mut t = base(0xB00000);
                t.backing_name = Some("sim1".into());
                out.push(from_specs(&format!("{}-chain2", g.name), "backing", vec![t, b1, b2]));
            }
            "data-last-table" => {
                let mut s = base(0xB00000);
                s.kinds = vec![GKind::Unalloc; ncl];
                let first = (ncl - 1) / l2e * l2e;
                for c in first..(first + 3).min(ncl) {
                    s.kinds[c] = GKind::Data;
                }
                out.push(from_specs(&format!("{}-data-last-table", g.name), "data", vec![s]));
            }
            "shortl1" => {
                let mut s = base(0xB00000);
                s.kinds = vec![GKind::Unalloc; ncl];
                s.kinds[0] = GKind::Data;
                s.short_l1 = true;
                s.l1_tail_junk = true;
                out.push(from_specs(&format!("{}-shortl1", g.name), "shortl1", vec![s]));
            }
            other => panic!("unknown image kind {}", other),
        }
    }
    out
}


/// reduced alphabet for the crash / fault families (deeper histories)
pub fn crash_alphabet(g: &Geo) -> Vec<Op> {
    let (bs, cs, sl, tb, v) = (g.bs(), g.cs(), g.sl(), g.tb(), g.vsize());
    let mut ops = vec![
        Op::Write { off: 0, len: bs as usize, tag: 1 },
        Op::Write { off: cs, len: cs as usize, tag: 3 },
    ];
    if sl < tb {
        ops.push(Op::Write { off: sl - bs, len: 2 * bs as usize, tag: 4 });
    } else {
        ops.push(Op::Write { off: cs - bs, len: 2 * bs as usize, tag: 2 });
    }
    if v > 2 * tb {
        ops.push(Op::Write { off: 2 * tb + cs, len: bs as usize, tag: 8 });
    }
    ops.push(Op::Read { off: 0, len: bs as usize });
    if v > tb {
        ops.push(Op::Read { off: tb - cs, len: 2 * cs as usize });
    }
    ops.push(Op::Discard { off: cs, len: cs });
    ops.push(Op::Discard { off: 0, len: 2 * cs });
    ops.push(Op::Flush);
    ops.push(Op::Sync);
    ops
}


/// alphabet aimed at copy-on-write over the source clusters 0..3 (C10) and discard (C11)
pub fn cow_alphabet(g: &Geo) -> Vec<Op> {
    let (bs, cs, v) = (g.bs(), g.cs(), g.vsize());
    let mut ops = vec![];
    let mut tag = 1u32;
    let mut w = |off: u64, len: u64, ops: &mut Vec<Op>| {
        if off + len <= v && len > 0 {
            ops.push(Op::Write { off, len: len as usize, tag });
            tag += 1;
        }
    };
    w(0, bs, &mut ops); // head of source cluster 0
    if cs > bs {
        w(cs - bs, bs, &mut ops); // tail of source cluster 0
    }
    w(cs - bs, 2 * bs, &mut ops); // straddling source clusters 0|1
    w(cs, cs, &mut ops); // whole source cluster 1
    if cs > bs {
        w(2 * cs - bs, bs, &mut ops); // tail of source cluster 1 (at / behind the end of a 1.5-cluster backing image)
    }
    w(2 * cs + (cs / 2 / bs * bs), bs.min(cs / 2).max(bs), &mut ops); // middle of source cluster 2
    w(cs, 3 * cs, &mut ops); // batch over clusters 1..3 (own + source)
    w(4 * cs, bs, &mut ops); // beyond a short backing image / unallocated
    if g.sl() < g.tb() {
        w(g.sl(), bs, &mut ops); // sibling slice of the same L2 cluster
    }
    ops.push(Op::Read { off: 0, len: (2 * cs) as usize });
    ops.push(Op::Discard { off: 0, len: cs });
    ops.push(Op::Discard { off: 0, len: 4 * cs });
    ops.push(Op::Flush);
    ops.push(Op::Reopen);
    ops
}


/// discard-heavy alphabet (C11)
pub fn discard_alphabet(g: &Geo) -> Vec<Op> {
    let (bs, cs, tb, v) = (g.bs(), g.cs(), g.tb(), g.vsize());
    let offs = [0, bs, cs - bs.min(cs - 1).max(1).min(bs), cs, cs + bs, v - cs, v - bs, v, v + cs, u64::MAX - cs];
    let lens = [0, bs, cs - bs.min(cs), cs, cs + bs, 2 * cs, 3 * cs + bs, v, u64::MAX];
    let mut ops: Vec<Op> = vec![];
    for o in offs {
        for l in lens {
            let op = Op::Discard { off: o, len: l };
            if !ops.contains(&op) {
                ops.push(op);
            }
        }
    }
    // ranges starting unaligned inside one L2 table and reaching into the next ones
    if v > tb {
        ops.push(Op::Discard { off: tb / 2 + bs, len: v });
        ops.push(Op::Discard { off: tb / 2 + bs, len: tb });
        ops.push(Op::Discard { off: tb - cs - bs, len: 3 * cs });
    }
    ops.push(Op::Write { off: 0, len: (3 * cs) as usize, tag: 1 });
    ops.push(Op::Write { off: cs, len: bs as usize, tag: 2 });
    if v > 2 * tb {
        ops.push(Op::Write { off: 2 * tb, len: (2 * cs) as usize, tag: 3 });
    }
    ops.push(Op::Flush);
    ops.push(Op::Reopen);
    ops
}


/// reduced discard alphabet for deeper histories with slices bigger than the block size:
/// mappings pending in one flush block of a slice while another block's entries are discarded
pub fn discard_alphabet_small(g: &Geo) -> Vec<Op> {
    let (bs, cs, v) = (g.bs(), g.cs(), g.vsize());
    let far = 100u64.min(v / cs - 2); // an entry in another 512-byte block of the slice
    vec![
        Op::Discard { off: 0, len: cs },
        Op::Discard { off: 0, len: 2 * cs },
        Op::Discard { off: bs, len: 2 * cs },
        Op::Discard { off: cs, len: cs + cs / 2 },
        Op::Discard { off: far * cs, len: cs },
        Op::Discard { off: 0, len: v },
        Op::Write { off: 0, len: (3 * cs) as usize, tag: 1 },
        Op::Write { off: cs, len: bs as usize, tag: 2 },
        Op::Write { off: far * cs, len: cs as usize, tag: 3 },
        Op::Write { off: (far + 1) * cs, len: bs as usize, tag: 4 },
        // inside a fresh cluster, touching neither its start nor its end
        Op::Write { off: 6 * cs + bs, len: bs as usize, tag: 5 },
        Op::Flush,
        Op::Reopen,
    ]
}
