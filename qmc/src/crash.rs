//! CRASH — enumeration of the file states a host crash can leave behind.
//!
//! The request log is cut at every completed fsync. A request is durable once
//! an fsync that was *submitted after the request completed* has itself
//! completed. At a crash inside a window the file is the durable image plus,
//! independently for every 512-byte block touched by an un-synced modifying
//! request (completed or still pending), the durable value or the value the
//! block has after any one of those requests.
use crate::simio::{Kind, Req, Sim};
use std::collections::hash_map::DefaultHasher;
use std::hash::{Hash, Hasher};

pub const BLK: usize = 512;

pub struct Window {
    /// durable image when the window is open
    pub base: Vec<u8>,
    /// ids of un-synced modifying requests, in order of effect
    pub unsynced: Vec<usize>,
    /// op indices (World::op_idx) that contributed an un-synced request
    pub ops: Vec<usize>,
    /// id of the fsync that closes the window (None = end of log)
    pub closed_by: Option<usize>,
    /// per touched block: block index and its distinct candidate contents (first = durable)
    pub blocks: Vec<(usize, Vec<Vec<u8>>)>,
}

fn apply(img: &mut Vec<u8>, r: &Req) {
    let off = r.off as usize;
    match &r.kind {
        Kind::Write { data } => {
            let e = off + data.len();
            if img.len() < e {
                img.resize(e, 0);
            }
            img[off..e].copy_from_slice(data);
        }
        Kind::Zero { len } => {
            let fl = img.len();
            let s = off.min(fl);
            let e = off.saturating_add(*len).min(fl);
            for b in &mut img[s..e] {
                *b = 0;
            }
        }
        _ => {}
    }
}

fn effect_order(reqs: &[Req], ids: &mut Vec<usize>) {
    // completed requests in completion order, then pending ones in submission order
    ids.sort_by_key(|&i| match reqs[i].complete_seq {
        Some(c) => (0u8, c),
        None => (1u8, reqs[i].submit_seq),
    });
}

fn make_window(base: &[u8], reqs: &[Req], mut ids: Vec<usize>, closed_by: Option<usize>) -> Window {
    effect_order(reqs, &mut ids);
    let mut cur = base.to_vec();
    let mut blocks: Vec<(usize, Vec<Vec<u8>>)> = vec![];
    let mut ops = vec![];
    for &i in ids.iter() {
        let r = &reqs[i];
        if !ops.contains(&r.op_idx) {
            ops.push(r.op_idx);
        }
        let len = r.kind.len();
        if len == 0 {
            continue;
        }
        let before_len = cur.len();
        apply(&mut cur, r);
        let b0 = r.off as usize / BLK;
        let b1 = ((r.off as usize + len - 1) / BLK).min((cur.len().max(1) - 1) / BLK);
        for b in b0..=b1 {
            if b * BLK >= cur.len() {
                break;
            }
            let e = ((b + 1) * BLK).min(cur.len());
            let mut v = cur[b * BLK..e].to_vec();
            v.resize(BLK, 0);
            let slot = match blocks.iter().position(|x| x.0 == b) {
                Some(p) => p,
                None => {
                    let mut d = if b * BLK < base.len() {
                        base[b * BLK..((b + 1) * BLK).min(base.len())].to_vec()
                    } else {
                        vec![]
                    };
                    d.resize(BLK, 0);
                    blocks.push((b, vec![d]));
                    blocks.len() - 1
                }
            };
            if !blocks[slot].1.contains(&v) {
                blocks[slot].1.push(v);
            }
        }
        let _ = before_len;
    }
    blocks.sort_by_key(|x| x.0);
    // blocks whose only candidate is the durable value carry no choice
    blocks.retain(|x| x.1.len() > 1);
    Window { base: base.to_vec(), unsynced: ids, ops, closed_by, blocks }
}

/// cut the log of device `dev` into windows
pub fn windows(sim: &Sim, dev: usize) -> Vec<Window> {
    let reqs = &sim.reqs;
    let mut durable = sim.initial[dev].clone();
    let mut is_durable = vec![false; reqs.len()];
    let mut out = vec![];
    // fsyncs in completion order
    let mut syncs: Vec<usize> = reqs
        .iter()
        .filter(|r| r.dev == dev && r.kind == Kind::Sync && r.complete_seq.is_some() && !r.failed)
        .map(|r| r.id)
        .collect();
    syncs.sort_by_key(|&i| reqs[i].complete_seq.unwrap());
    let modifying = |r: &Req| r.dev == dev && r.kind.is_modifying() && !r.failed;
    for f in syncs {
        let fs = reqs[f].submit_seq;
        let fc = reqs[f].complete_seq.unwrap();
        // everything submitted before the fsync completed and not yet durable is un-synced in this window
        let ids: Vec<usize> =
            reqs.iter().filter(|r| modifying(r) && !is_durable[r.id] && r.submit_seq < fc).map(|r| r.id).collect();
        if !ids.is_empty() {
            out.push(make_window(&durable, reqs, ids.clone(), Some(f)));
        }
        // requests completed before the fsync was submitted become durable
        let mut newly: Vec<usize> =
            ids.into_iter().filter(|&i| reqs[i].complete_seq.map_or(false, |c| c < fs)).collect();
        effect_order(reqs, &mut newly);
        for i in newly {
            apply(&mut durable, &reqs[i]);
            is_durable[i] = true;
        }
    }
    let ids: Vec<usize> = reqs.iter().filter(|r| modifying(r) && !is_durable[r.id]).map(|r| r.id).collect();
    if !ids.is_empty() {
        out.push(make_window(&durable, reqs, ids, None));
    }
    out
}

/// (hash of the durable image, hashes of un-synced requests) — for state digests
pub fn durable_summary(sim: &Sim, dev: usize) -> (u64, Vec<u64>) {
    let reqs = &sim.reqs;
    let mut durable = sim.initial[dev].clone();
    let mut is_durable = vec![false; reqs.len()];
    let mut syncs: Vec<usize> = reqs
        .iter()
        .filter(|r| r.dev == dev && r.kind == Kind::Sync && r.complete_seq.is_some() && !r.failed)
        .map(|r| r.id)
        .collect();
    syncs.sort_by_key(|&i| reqs[i].complete_seq.unwrap());
    let modifying = |r: &Req| r.dev == dev && r.kind.is_modifying() && !r.failed;
    for f in syncs {
        let fs = reqs[f].submit_seq;
        let mut newly: Vec<usize> = reqs
            .iter()
            .filter(|r| modifying(r) && !is_durable[r.id] && r.complete_seq.map_or(false, |c| c < fs))
            .map(|r| r.id)
            .collect();
        effect_order(reqs, &mut newly);
        for i in newly {
            apply(&mut durable, &reqs[i]);
            is_durable[i] = true;
        }
    }
    let mut h = DefaultHasher::new();
    durable.hash(&mut h);
    let uns = reqs
        .iter()
        .filter(|r| modifying(r) && !is_durable[r.id])
        .map(|r| {
            let mut h = DefaultHasher::new();
            r.off.hash(&mut h);
            match &r.kind {
                Kind::Write { data } => data.hash(&mut h),
                Kind::Zero { len } => len.hash(&mut h),
                _ => {}
            }
            h.finish()
        })
        .collect();
    (h.finish(), uns)
}

pub struct EnumStats {
    pub images: u64,
    pub exhaustive: bool,
}

impl Window {
    pub fn product(&self) -> f64 {
        self.blocks.iter().map(|b| b.1.len() as f64).product()
    }

    fn image_len(&self) -> usize {
        let mut l = self.base.len();
        for (b, _) in self.blocks.iter() {
            l = l.max((b + 1) * BLK);
        }
        l
    }

    /// Enumerate crash images. Complete when the product is <= cap; otherwise all
    /// images that differ in at most `k` blocks from "nothing persisted" and from
    /// "everything persisted (latest version)". `f` returns false to stop.
    pub fn enumerate<F: FnMut(&[u8], &[usize]) -> bool>(&self, cap: u64, k: usize, mut f: F) -> EnumStats {
        let n = self.blocks.len();
        let mut img = self.base.clone();
        img.resize(self.image_len(), 0);
        let set = |img: &mut Vec<u8>, bi: usize, ver: usize, w: &Window| {
            let (b, vers) = &w.blocks[bi];
            img[b * BLK..(b + 1) * BLK].copy_from_slice(&vers[ver]);
        };
        let mut images = 0u64;
        if self.product() <= cap as f64 {
            let mut choice = vec![0usize; n];
            loop {
                images += 1;
                if !f(&img, &choice) {
                    return EnumStats { images, exhaustive: false };
                }
                // increment mixed-radix counter
                let mut i = 0;
                loop {
                    if i == n {
                        return EnumStats { images, exhaustive: true };
                    }
                    choice[i] += 1;
                    if choice[i] < self.blocks[i].1.len() {
                        set(&mut img, i, choice[i], self);
                        break;
                    }
                    choice[i] = 0;
                    set(&mut img, i, 0, self);
                    i += 1;
                }
            }
        }
        // deviation-bounded from both extremes
        for extreme in 0..2 {
            let basec: Vec<usize> =
                (0..n).map(|i| if extreme == 0 { 0 } else { self.blocks[i].1.len() - 1 }).collect();
            for i in 0..n {
                set(&mut img, i, basec[i], self);
            }
            // recursive choose up to k deviating blocks
            fn rec<F: FnMut(&[u8], &[usize]) -> bool>(
                w: &Window,
                img: &mut Vec<u8>,
                choice: &mut Vec<usize>,
                basec: &[usize],
                start: usize,
                left: usize,
                images: &mut u64,
                f: &mut F,
            ) -> bool {
                *images += 1;
                if !f(img, choice) {
                    return false;
                }
                if left == 0 {
                    return true;
                }
                for i in start..w.blocks.len() {
                    for v in 0..w.blocks[i].1.len() {
                        if v == basec[i] {
                            continue;
                        }
                        choice[i] = v;
                        let (b, vers) = &w.blocks[i];
                        img[b * BLK..(b + 1) * BLK].copy_from_slice(&vers[v]);
                        if !rec(w, img, choice, basec, i + 1, left - 1, images, f) {
                            return false;
                        }
                    }
                    choice[i] = basec[i];
                    let (b, vers) = &w.blocks[i];
                    img[b * BLK..(b + 1) * BLK].copy_from_slice(&vers[basec[i]]);
                }
                true
            }
            let mut choice = basec.clone();
            if !rec(self, &mut img, &mut choice, &basec, 0, k, &mut images, &mut f) {
                return EnumStats { images, exhaustive: false };
            }
        }
        EnumStats { images, exhaustive: false }
    }
}
