//! Per-property checks: scenario selection, bounds per tier, evidence.
use crate::hist::{bfs, deadline_in, BfsLimits, BfsStats};
use crate::images::{self, Geo, ImageSet};
use crate::report::{Run, Violation};
use crate::seq::{Oracles, SeqScenario};
use crate::world::*;
use serde_json::{json, Value};

pub fn run_check(prop: &str, _args: &[String]) -> i32 {
    match prop {
        "C01" | "C02" | "C03" | "C16" | "C18" => seq_family(prop),
        "C06" | "C07" => sched_family(prop),
        "C04" | "C05" => crash_family(prop),
        "C17" => fault_check(),
        "C10" => cow_check(),
        "C08" => alloc_check(),
        "C11" => discard_check(),
        "C13" => crate::enumchk::c13(),
        "C15" => crate::enumchk::c15(),
        "C14" => crate::c14::c14(),
        "C09" => crate::c09::c09(),
        "C12" => growth_check(),
        "C19" => crate::c19::c19(),
        "C20" => crate::c20::c20(),
        _ => {
            eprintln!("unknown property {}", prop);
            2
        }
    }
}

pub fn find_image(name: &str) -> Option<ImageSet> {
    for g in [images::G9, images::G10, images::G12, images::G12B, images::G12R0, images::G12R1, images::G12R3, images::G12V2, images::G16] {
        for k in ["libfmt", "empty", "data", "data-ragged", "data-last-table", "zero", "zero-prealloc", "compressed", "compressed-boundary", "compressed-straddle", "compressed-ragged", "backing", "backing-short", "backing-long", "chain2", "shortl1"] {
            if !(name.starts_with(g.name) || name.starts_with("libfmt")) {
                continue;
            }
            let r = std::panic::catch_unwind(|| images::initial_images(&g, &[k]));
            if let Ok(mut v) = r {
                if v[0].name == name {
                    return Some(v.remove(0));
                }
            }
        }
    }
    crate::extra::find_extra_image(name)
}

/// re-run one recorded case without any explorer and print what happens
pub fn replay(path: &str) -> i32 {
    let txt = match std::fs::read_to_string(path) {
        Ok(t) => t,
        Err(e) => {
            eprintln!("cannot read {}: {}", path, e);
            return 2;
        }
    };
    let v: Value = serde_json::from_str(&txt).unwrap();
    let r = if v.get("replay").is_some() { v["replay"].clone() } else { v.clone() };
    println!("property: {}  class: {}", v["property"], v["class"]);
    println!("recorded detail: {}", v["detail"]);
    qcow2_rs::verif::set_order_salt(r["salt"].as_u64().unwrap_or(0) as usize);
    match r["engine"].as_str().unwrap_or("") {
        "hist" | "fault" => {
            let img = match find_image(r["image"].as_str().unwrap()) {
                Some(i) => i,
                None => {
                    eprintln!("unknown image {}", r["image"]);
                    return 2;
                }
            };
            let cfg = DevCfg::from_json(&r["cfg_json"]);
            let alt = r.get("alt_json").map(DevCfg::from_json).unwrap_or(cfg.clone());
            let hist: Vec<Op> = r["history"].as_array().unwrap().iter().map(|o| Op::from_json(o).unwrap()).collect();
            let mut w = World::new(img.files.clone(), img.rd.clone(), &cfg, &alt).unwrap();
            if r["punch_unsupported"].as_bool().unwrap_or(false) {
                w.sim.borrow_mut().fault.punch_unsupported = true;
            }
            if let Some(f) = r.get("fault") {
                let mut s = w.sim.borrow_mut();
                if let Some(ids) = f.get("fail_ids").and_then(|x| x.as_array()) {
                    s.fault.fail_ids = ids.iter().map(|x| x.as_u64().unwrap() as usize).collect();
                }
                if let Some(k) = f.get("fail_kind").and_then(|x| x.as_str()) {
                    s.fault.fail_kinds = vec![k.chars().next().unwrap()];
                }
                if f.get("punch_unsupported").is_some() {
                    s.fault.punch_unsupported = true;
                }
            }
            println!("image {} ({} bytes), cfg {}", img.name, img.files[0].len(), cfg.describe());
            println!("-- open: {} requests", w.sim.borrow().reqs.len());
            for op in hist.iter() {
                let before = w.sim.borrow().reqs.len();
                let res = w.step(op);
                println!("{} -> {}", op.short(), res.short());
                if let Op::Read { off, len } = op {
                    let exp = w.expect(*off, *len);
                    for (i, (g, e)) in res.words.iter().zip(exp.iter()).enumerate() {
                        if *g != Some(*e) {
                            println!("    block {}: expected {} got {}", i, describe_word(Some(*e)), describe_word(*g));
                        }
                    }
                }
                for l in w.sim.borrow().log_lines(before) {
                    println!("      {}", l);
                }
            }
            if let Some(d) = &w.dev {
                let ms = sweep(d, &w.rd, 1usize << w.cur_cfg().bs_bits, true);
                for m in ms {
                    println!("SWEEP MISMATCH [{}] read_at({:#x},{}): {}", m.shape, m.off, m.len, m.what);
                }
                println!("need_flush_meta = {}", d.need_flush_meta());
            }
            let rep = crate::spec::check_image(&w.sim.borrow().files[0]);
            println!("checker (volatile file): {:?}", rep.first_problem(true));
            0
        }
        "sched" => {
            let img = find_image(r["image"].as_str().unwrap()).unwrap();
            let cfg = DevCfg::from_json(&r["cfg_json"]);
            let ops = |a: &Value| -> Vec<Op> { a.as_array().unwrap().iter().map(|o| Op::from_json(o).unwrap()).collect() };
            let sc = SchedScenario {
                name: r["scenario"].as_str().unwrap_or("").into(),
                img,
                cfg,
                cfg_name: r["cfg_name"].as_str().unwrap_or("").into(),
                setup: ops(&r["setup"]),
                tasks: r["tasks"].as_array().unwrap().iter().map(ops).collect(),
                fused: r["fused"].as_bool().unwrap_or(true),
            };
            let sched: Vec<usize> = r["schedule"].as_array().unwrap().iter().map(|x| x.as_u64().unwrap() as usize).collect();
            println!("{}", sc.describe());
            match sc.execute(&sched) {
                Ok(x) => {
                    println!("deadlock={} livelock={} panic={:?} steps={} choice points={:?}", x.deadlock, x.livelock, x.panic, x.steps, x.points);
                    for rec in x.records.iter() {
                        println!("  T{} {} [{}..{}] -> {}", rec.task, rec.op.short(), rec.inv, rec.resp, if rec.finished { rec.res.short() } else { "(never returned)".into() });
                    }
                    for l in x.world.sim.borrow().log_lines(x.log_start) {
                        println!("      {}", l);
                    }
                    for l in x.trace.iter() {
                        println!("   {}", l);
                    }
                    let o = lin::judge(&sc, x, &["C02", "C06", "C07", "C18"]);
                    for v in o.violations {
                        println!("VIOLATION {} {}: {}", v.prop, v.class, v.detail.chars().take(400).collect::<String>());
                    }
                    0
                }
                Err(e) if e.starts_with("setup operation") => {
                    println!("VIOLATION setup-failed: {}", e);
                    0
                }
                Err(e) => {
                    eprintln!("machinery error: {}", e);
                    2
                }
            }
        }
        other => {
            eprintln!("replay of engine '{}' is handled by re-running the check (inputs are enumerated deterministically); case: {}", other, r);
            0
        }
    }
}
/// SpecKit self-validation: the checker must flag exactly the class of every injected damage
/// (so that it is not a rubber stamp) and accept every builder image. Returns (damages, failures).
pub fn speckit_selftest() -> (u64, Vec<String>) {
    use crate::spec::*;
    let mut n = 0u64;
    let mut fails = vec![];
    for (cb, order) in [(9u32, 6u32), (10, 4), (12, 2), (16, 4)] {
        let mut s = ImageSpec::new(cb, order, 40 << cb);
        s.kinds = vec![GKind::Unalloc; 40];
        for c in [0usize, 1, 2, 7] {
            s.kinds[c] = GKind::Data;
        }
        s.kinds[3] = GKind::Zero;
        s.kinds[4] = GKind::ZeroPrealloc;
        s.kinds[5] = GKind::Compressed;
        let b = build_image(&s);
        let rep = check_image(&b.bytes);
        if !rep.strict_ok() {
            fails.push(format!("builder image c{} r{} rejected: {:?}", cb, order, rep.first_problem(true)));
            continue;
        }
        let h = rep.header.clone();
        let (cs, _, rbe) = geometry(cb, order);
        let l1_off = h.l1_off as usize;
        let l2_off = (u64::from_be_bytes(b.bytes[l1_off..l1_off + 8].try_into().unwrap()) & 0x00ff_ffff_ffff_fe00) as usize;
        let rb_off = (u64::from_be_bytes(b.bytes[h.rt_off as usize..h.rt_off as usize + 8].try_into().unwrap()) & !0x1ff) as usize;
        let mut expect = |name: &str, img: Vec<u8>, want: &dyn Fn(&Report) -> bool| {
            n += 1;
            let r = check_image(&img);
            if !want(&r) || r.strict_ok() {
                fails.push(format!("c{} r{} damage '{}' not reported as such (first problem {:?})", cb, order, name, r.first_problem(true)));
            }
        };
        // every referenced cluster: refcount -1 => under, +1 => leak (where the width allows)
        for (c, owners) in rep.refs.iter() {
            let stored = owners.len() as u64;
            let mut img = b.bytes.clone();
            rc_set(&mut img[rb_off..rb_off + cs], order, (*c as usize) % rbe, stored - 1);
            let cc = *c;
            expect("refcount-1", img, &move |r| r.under.iter().any(|u| u.0 == cc));
            if stored + 1 <= rc_max(order) {
                let mut img = b.bytes.clone();
                rc_set(&mut img[rb_off..rb_off + cs], order, (*c as usize) % rbe, stored + 1);
                expect("refcount+1", img, &move |r| r.leaked.iter().any(|u| u.0 == cc));
            }
        }
        // every standard L2 entry: duplicate mapping, misaligned, reserved bit, missing COPIED
        let first_data = b.truth[0].host_off;
        for g in [1usize, 2, 7] {
            let eo = l2_off + g * 8;
            let e = u64::from_be_bytes(b.bytes[eo..eo + 8].try_into().unwrap());
            let put = |v: u64| {
                let mut img = b.bytes.clone();
                img[eo..eo + 8].copy_from_slice(&v.to_be_bytes());
                img
            };
            expect("duplicate-mapping", put((1u64 << 63) | first_data), &|r| !r.double_ref.is_empty());
            if cs > 512 {
                expect("misaligned", put(e + 512), &|r| !r.bad_entry.is_empty());
            }
            expect("reserved-bit", put(e | 0x4), &|r| !r.bad_entry.is_empty());
            expect("missing-copied", put(e & !(1u64 << 63)), &|r| !r.copied.is_empty());
        }
        // mapping beyond the virtual size
        {
            let eo = l2_off + 45 * 8;
            if 45 < cs / 8 {
                let mut img = b.bytes.clone();
                img[eo..eo + 8].copy_from_slice(&((1u64 << 63) | first_data).to_be_bytes());
                expect("beyond-size", img, &|r| !r.beyond_size.is_empty());
            }
        }
        // L1 entry pointing into data: table with invalid entries
        {
            let mut img = b.bytes.clone();
            img[l1_off..l1_off + 8].copy_from_slice(&((1u64 << 63) | first_data).to_be_bytes());
            expect("l1-points-at-data", img, &|r| !r.uninit_table.is_empty());
        }
    }
    (n, fails)
}

pub fn selftest() -> i32 {
    let (n, fails) = speckit_selftest();
    println!("SpecKit self-test: {} injected damages, {} not reported correctly", n, fails.len());
    for f in fails.iter().take(10) {
        println!("  {}", f);
    }
    if fails.is_empty() {
        0
    } else {
        2
    }
}

struct SeqPlan {
    geo: Geo,
    images: Vec<&'static str>,
    cfgs: Vec<&'static str>,
    depth: usize,
    secs: u64,
}

fn cfg_of(g: &Geo, name: &str) -> DevCfg {
    match name {
        "small" => g.cfg_small(),
        "ample" => g.cfg_ample(),
        "default" => g.cfg_default(),
        "alt" => g.cfg_alt(),
        _ => panic!(),
    }
}

pub fn stats_json(name: &str, st: &BfsStats) -> Value {
    json!({
        "scenario": name,
        "states": st.states,
        "transitions": st.transitions,
        "depth_completed": st.depth_completed,
        "depth_target": st.depth_target,
        "capped": st.capped,
        "pruned_states": st.pruned,
        "per_level": st.per_level.iter().map(|(d,t,n)| json!({"depth":d,"transitions":t,"new_states":n})).collect::<Vec<_>>(),
        "distinct_outcomes": st.distinct_outcomes,
        "determinism_replays": st.replayed,
        "nondeterministic": st.nondeterministic,
    })
}

fn seq_family(prop: &str) -> i32 {
    let run = Run::new(prop, "model_checking");
    let thorough = run.thorough();
    let mut selftest_json = json!(null);
    if prop == "C03" {
        let (n, fails) = speckit_selftest();
        if !fails.is_empty() {
            println!("machinery failure: SpecKit checker self-test failed: {:?}", &fails[..fails.len().min(5)]);
            return 2;
        }
        selftest_json = json!({"injected_damages_all_reported": n});
    }
    let plans: Vec<SeqPlan> = if !thorough {
        vec![
            SeqPlan { geo: images::G9, images: vec!["libfmt", "data"], cfgs: vec!["small"], depth: 4, secs: 16 },
            SeqPlan { geo: images::G10, images: vec!["libfmt"], cfgs: vec!["small"], depth: 4, secs: 12 },
            SeqPlan { geo: images::G10, images: vec!["data"], cfgs: vec!["small", "ample"], depth: 3, secs: 10 },
            SeqPlan { geo: images::G10, images: vec!["libfmt"], cfgs: vec!["ample"], depth: 3, secs: 5 },
            SeqPlan { geo: images::G12, images: vec!["libfmt"], cfgs: vec!["small"], depth: 2, secs: 5 },
            SeqPlan { geo: images::G12B, images: vec!["compressed", "compressed-straddle", "compressed-ragged", "data-ragged", "backing", "zero", "zero-prealloc"], cfgs: vec!["small"], depth: 2, secs: 8 },
        ]
    } else {
        vec![
            SeqPlan { geo: images::G9, images: vec!["libfmt", "data", "empty"], cfgs: vec!["small", "ample"], depth: 6, secs: 240 },
            SeqPlan { geo: images::G10, images: vec!["libfmt", "data", "empty"], cfgs: vec!["small", "ample"], depth: 6, secs: 300 },
            SeqPlan { geo: images::G12, images: vec!["libfmt", "data"], cfgs: vec!["small", "default"], depth: 4, secs: 120 },
            SeqPlan { geo: images::G12B, images: vec!["libfmt", "compressed", "compressed-straddle", "compressed-boundary", "compressed-ragged", "data-ragged", "backing", "zero"], cfgs: vec!["small"], depth: 3, secs: 120 },
            SeqPlan { geo: images::G10, images: vec!["zero", "zero-prealloc", "compressed", "compressed-straddle", "backing", "backing-short"], cfgs: vec!["small"], depth: 4, secs: 200 },
            SeqPlan { geo: images::G16, images: vec!["libfmt"], cfgs: vec!["default"], depth: 3, secs: 60 },
            SeqPlan { geo: images::G12R0, images: vec!["libfmt", "data"], cfgs: vec!["small"], depth: 3, secs: 60 },
            SeqPlan { geo: images::G12R1, images: vec!["libfmt", "data"], cfgs: vec!["small"], depth: 3, secs: 60 },
            SeqPlan { geo: images::G12R3, images: vec!["libfmt", "data"], cfgs: vec!["small"], depth: 3, secs: 60 },
            SeqPlan { geo: images::G12V2, images: vec!["data", "compressed", "backing"], cfgs: vec!["small", "default"], depth: 3, secs: 60 },
        ]
    };
    let oracles = Oracles { c01: true, c02: true, c03: true, c16: true, c18: true, ..Default::default() };
    let mut viol: Vec<Violation> = vec![];
    let mut scen = vec![];
    let (mut states, mut trans) = (0u64, 0u64);
    let mut outcomes = 0u64;
    let mut samples: Vec<String> = vec![];
    let mut all_complete = true;
    let salts: &[usize] = if thorough { &[0, 1] } else { &[0] };
    for plan in plans.iter() {
        let imgs: Vec<ImageSet> = images::initial_images(&plan.geo, &plan.images);
        let n = imgs.len() * plan.cfgs.len() * salts.len();
        for img in imgs {
            for cfgn in plan.cfgs.iter() {
                for &salt in salts {
                    qcow2_rs::verif::set_order_salt(salt);
                    let cfg = cfg_of(&plan.geo, cfgn);
                    let alt = plan.geo.cfg_alt();
                    let sc = SeqScenario::new(img.clone(), cfg, alt, cfgn, images::alphabet(&plan.geo, true), oracles.clone());
                    let lim = BfsLimits { depth: plan.depth, max_states: 3_000_000, deadline: deadline_in((plan.secs / n as u64).max(2)) };
                    let st = bfs(&sc, &lim, &mut viol);
                    states += st.states;
                    trans += st.transitions;
                    outcomes += st.distinct_outcomes;
                    if st.capped || st.depth_completed < st.depth_target {
                        all_complete = false;
                    }
                    for s in st.samples.iter().take(2) {
                        if samples.len() < 12 {
                            samples.push(format!("{} salt{}: {}", crate::hist::Scenario::name(&sc), salt, s));
                        }
                    }
                    let mut j = stats_json(&format!("{} salt{}", crate::hist::Scenario::name(&sc), salt), &st);
                    j["requests_seen"] = json!(st.counters[0]);
                    scen.push(j);
                }
            }
        }
    }
    // wide guest space: an L1 table of several flush blocks, written in every order
    {
        let gw = crate::extra::g9_wide(130);
        let img = images::lib_formatted(gw.cluster_bits, gw.order, gw.vsize());
        let (cs, tb) = (gw.cs(), gw.tb());
        let w = |off: u64, len: u64, tag: u32| Op::Write { off, len: len as usize, tag };
        let alpha = vec![w(0, cs, 1), w(64 * tb, cs, 2), w(129 * tb + cs, cs, 3), w(65 * tb - cs, 2 * cs, 4), w(63 * tb, cs, 5), Op::Discard { off: 64 * tb, len: cs }, Op::Flush, Op::Reopen];
        qcow2_rs::verif::set_order_salt(0);
        let mut sc = SeqScenario::new(img.clone(), gw.cfg_small(), gw.cfg_alt(), "small", alpha, oracles.clone());
        sc.full_sweep = false;
        let lim = BfsLimits { depth: if thorough { 5 } else { 3 }, max_states: 3_000_000, deadline: deadline_in(if thorough { 200 } else { 8 }) };
        let st = bfs(&sc, &lim, &mut viol);
        states += st.states;
        trans += st.transitions;
        outcomes += st.distinct_outcomes;
        if st.capped || st.depth_completed < st.depth_target {
            all_complete = false;
        }
        scen.push(stats_json(&format!("{} (130 L2 tables) salt0", crate::hist::Scenario::name(&sc)), &st));
    }
    // L2 slices bigger than a block (1 KiB slices over 512-byte blocks), table on disk already: a cached mapping
    // update in one block of the slice, then a copy-on-write (in-place slice write) whose entry is in the other block
    {
        let g = images::G10;
        let (cs, bs, sl) = (g.cs(), g.bs(), g.sl());
        let w = |off: u64, len: u64, tag: u32| Op::Write { off, len: len as usize, tag };
        let alpha = vec![w(sl, bs, 1), w(0, bs, 2), w(cs + bs, bs, 3), w(sl + cs, cs, 4), Op::Flush, Op::Reopen];
        for img in images::initial_images(&g, &["compressed", "backing"]) {
            qcow2_rs::verif::set_order_salt(0);
            let sc = SeqScenario::new(img, g.cfg_alt(), g.cfg_small(), "alt", alpha.clone(), oracles.clone());
            let lim = BfsLimits { depth: if thorough { 5 } else { 4 }, max_states: 3_000_000, deadline: deadline_in(if thorough { 100 } else { 6 }) };
            let st = bfs(&sc, &lim, &mut viol);
            states += st.states;
            trans += st.transitions;
            outcomes += st.distinct_outcomes;
            if st.capped || st.depth_completed < st.depth_target {
                all_complete = false;
            }
            scen.push(stats_json(&format!("{} (slice = 2 blocks) salt0", crate::hist::Scenario::name(&sc)), &st));
        }
    }
    // host space one allocation short of a new refcount block: partial allocations, refblock creation
    {
        let gw = crate::extra::g9_wide(3);
        let img = crate::extra::rb_edge_image();
        let cs = gw.cs();
        let w = |off: u64, len: u64, tag: u32| Op::Write { off, len: len as usize, tag };
        let alpha = vec![w(100 * cs, cs, 1), w(110 * cs, 3 * cs, 3), w(120 * cs, cs, 4), w(2 * gw.tb(), 5 * cs, 5), Op::Discard { off: 0, len: 2 * cs }, Op::Flush, Op::Reopen];
        qcow2_rs::verif::set_order_salt(0);
        let sc = SeqScenario::new(img, gw.cfg_small(), gw.cfg_alt(), "small", alpha, oracles.clone());
        let lim = BfsLimits { depth: if thorough { 5 } else { 4 }, max_states: 3_000_000, deadline: deadline_in(if thorough { 200 } else { 8 }) };
        let st = bfs(&sc, &lim, &mut viol);
        states += st.states;
        trans += st.transitions;
        outcomes += st.distinct_outcomes;
        if st.capped || st.depth_completed < st.depth_target {
            all_complete = false;
        }
        scen.push(stats_json(&format!("{} salt0", crate::hist::Scenario::name(&sc)), &st));
    }
    // slices bigger than a block (4 KiB slices, 512-byte blocks): partial slice writes, entries of one
    // slice in different blocks, discards next to unflushed mappings
    for kind in if thorough { vec!["data", "libfmt"] } else { vec!["data"] } {
        let g = images::G12;
        let img = images::initial_images(&g, &[kind]).remove(0);
        let mut alpha = images::discard_alphabet_small(&g);
        alpha.push(Op::Shrink);
        qcow2_rs::verif::set_order_salt(0);
        let mut sc = SeqScenario::new(img.clone(), cfg_of(&g, "alt"), g.cfg_small(), "alt", alpha, oracles.clone());
        sc.full_sweep = false;
        let lim = BfsLimits { depth: if thorough { 5 } else { 4 }, max_states: 3_000_000, deadline: deadline_in(if thorough { 300 } else { 12 }) };
        let st = bfs(&sc, &lim, &mut viol);
        states += st.states;
        trans += st.transitions;
        outcomes += st.distinct_outcomes;
        if st.capped || st.depth_completed < st.depth_target {
            all_complete = false;
        }
        scen.push(stats_json(&format!("{} (4 KiB slices) salt0", crate::hist::Scenario::name(&sc)), &st));
    }
    // hole punching unsupported: every zeroing request (new clusters, discards) takes the library's
    // write-zeros fallback, whose requests and buffers must be block aligned like any other (C16)
    for (g, kind, depth) in [(images::G10, "data", 3usize), (images::G10, "compressed", 2), (images::G12B, "data", 2)] {
        let img = images::initial_images(&g, &[kind]).remove(0);
        qcow2_rs::verif::set_order_salt(0);
        let mut sc = SeqScenario::new(img.clone(), cfg_of(&g, "small"), g.cfg_alt(), "small", images::alphabet(&g, true), oracles.clone());
        sc.punch_unsupported = true;
        let lim = BfsLimits { depth: if thorough { depth + 1 } else { depth }, max_states: 3_000_000, deadline: deadline_in(if thorough { 200 } else { 6 }) };
        let st = bfs(&sc, &lim, &mut viol);
        states += st.states;
        trans += st.transitions;
        outcomes += st.distinct_outcomes;
        if st.capped || st.depth_completed < st.depth_target {
            all_complete = false;
        }
        scen.push(stats_json(&format!("{} (hole punch unsupported) salt0", crate::hist::Scenario::name(&sc)), &st));
    }
    // short L1 tables which have to be relocated: one whose full entry count (130) is no multiple of
    // the entries per block, one of two clusters
    for (img, gw, far) in [(crate::extra::short_l1_odd_image(), crate::extra::g9_wide(130), 129u64), (crate::extra::short_l1_two_image(), crate::extra::g9_wide(192), 191u64)] {
        let (cs, tb) = (gw.cs(), gw.tb());
        let w = |off: u64, len: u64, tag: u32| Op::Write { off, len: len as usize, tag };
        let alpha = vec![w(tb, cs, 1), w(64 * tb, cs, 2), w(far * tb + cs, cs, 3), w(65 * tb - cs, 2 * cs, 4), Op::Flush, Op::Reopen];
        qcow2_rs::verif::set_order_salt(0);
        let mut sc = SeqScenario::new(img.clone(), gw.cfg_small(), gw.cfg_alt(), "small", alpha, oracles.clone());
        sc.full_sweep = false;
        let lim = BfsLimits { depth: if thorough { 4 } else { 3 }, max_states: 3_000_000, deadline: deadline_in(if thorough { 200 } else { 8 }) };
        let st = bfs(&sc, &lim, &mut viol);
        states += st.states;
        trans += st.transitions;
        outcomes += st.distinct_outcomes;
        if st.capped || st.depth_completed < st.depth_target {
            all_complete = false;
        }
        scen.push(stats_json(&format!("{} salt0", crate::hist::Scenario::name(&sc)), &st));
    }
    // a compressed run that straddles the boundary between two refcount blocks' ranges is released by COW
    {
        let g = images::G9;
        let img = crate::extra::compressed_rb_straddle_image();
        let (cs, bs) = (g.cs(), g.bs());
        let w = |off: u64, len: u64, tag: u32| Op::Write { off, len: len as usize, tag };
        let alpha = vec![w(57 * cs, bs, 1), w(58 * cs, bs, 2), w(59 * cs, cs, 3), Op::Discard { off: 0, len: cs }, Op::Flush, Op::Reopen];
        qcow2_rs::verif::set_order_salt(0);
        let sc = SeqScenario::new(img, g.cfg_small(), g.cfg_alt(), "small", alpha, oracles.clone());
        let lim = BfsLimits { depth: if thorough { 5 } else { 3 }, max_states: 3_000_000, deadline: deadline_in(if thorough { 100 } else { 6 }) };
        let st = bfs(&sc, &lim, &mut viol);
        states += st.states;
        trans += st.transitions;
        outcomes += st.distinct_outcomes;
        if st.capped || st.depth_completed < st.depth_target {
            all_complete = false;
        }
        scen.push(stats_json(&format!("{} salt0", crate::hist::Scenario::name(&sc)), &st));
    }
    // fragmented host space: multi-cluster allocations that cross refblock slices and must retry
    {
        let gf = crate::extra::GF;
        let img = crate::extra::frag_image();
        let mut alpha: Vec<Op> = alloc_alphabet(&gf).into_iter().filter(|o| !matches!(o, Op::Alloc(_) | Op::Free(_))).collect();
        alpha.push(Op::Write { off: 120 * gf.cs(), len: (2 * gf.cs()) as usize, tag: 4 });
        // five clusters: the partial runs of the retry have different lengths (1, 2, then 3 of the next slice)
        alpha.push(Op::Write { off: 105 * gf.cs(), len: (5 * gf.cs()) as usize, tag: 5 });
        for cfgn in ["small"] {
            qcow2_rs::verif::set_order_salt(0);
            let sc = SeqScenario::new(img.clone(), cfg_of(&gf, cfgn), gf.cfg_alt(), cfgn, alpha.clone(), oracles.clone());
            let lim = BfsLimits { depth: if thorough { 5 } else { 3 }, max_states: 3_000_000, deadline: deadline_in(if thorough { 200 } else { 6 }) };
            let st = bfs(&sc, &lim, &mut viol);
            states += st.states;
            trans += st.transitions;
            outcomes += st.distinct_outcomes;
            if st.capped || st.depth_completed < st.depth_target {
                all_complete = false;
            }
            scen.push(stats_json(&format!("{} salt0", crate::hist::Scenario::name(&sc)), &st));
        }
    }
    run.add_all(viol);
    // C02 and C18 also quantify over what a concurrent flush can do: explore every schedule of
    // flush_meta / shrink_caches racing another operation and judge the quiescent end state
    let mut sched_json = json!(null);
    if prop == "C02" || prop == "C18" || prop == "C03" {
        let sc = flush_scenarios(thorough);
        let (b, per, secs) = if thorough { (3, 200_000, 600) } else { (2, 4_000, 25) };
        match sched_explore(&run, &[prop], &sc, b, per, secs) {
            Ok(sum) => {
                states += sum.steps;
                trans += sum.steps;
                sched_json = json!({"scenarios": sum.total, "executions": sum.execs, "executor_steps": sum.steps, "scenarios_with_several_outcomes": sum.multi_outcome,
                    "min_deviation_bound_completed": sum.min_bound, "deviation_bound_target": b, "scenarios_exhausted": sum.exhausted_n, "samples": sum.samples});
            }
            Err(e) => {
                eprintln!("machinery error: {}", e);
                return 2;
            }
        }
    }
    // C02 quantifies over any history: also the ones in which a backend request failed, the
    // backend healed and flush_meta then returned Ok
    let mut fault_json = json!(null);
    if prop == "C02" || prop == "C18" {
        let (v, j) = faulted_histories_part(thorough, prop);
        run.add_all(v);
        fault_json = j;
    }
    let cov = json!({
        "states": states,
        "transitions": trans,
        "traces_validated_against_impl": trans,
        "samples": samples,
        "evaluations": trans,
        "distinct_nontrivial": outcomes,
        "concurrent_part": sched_json,
        "faulted_histories_part": fault_json,
        "checker_selftest": selftest_json,
        "rule": "explicit-state BFS over operation histories on the real code (every transition = one replay of the history on a fresh simulated host); states merged by digest of files + in-RAM metadata + reference disk; distinct_nontrivial = number of distinct (operation kind, result, data returned) outcomes observed",
        "exhaustive": all_complete,
        "scenarios": scen,
    });
    run.finish(cov, vec![
        "SimIo host-file model (tied to the real backends by C19)".into(),
        "deterministic cache iteration order (verif-hooks H1) is one admissible order; thorough tier runs ascending and descending".into(),
        "block-granular data values: every 512-byte block holds a uniform tag word".into(),
    ])
}

// =====================================================================
// SCHED family: C06 C07 (+ concurrent parts of C02 C18)
// =====================================================================
use crate::lin;
use crate::sched::{explore, SchedScenario};
use rayon::prelude::*;

pub fn sched_menu(g: &Geo) -> Vec<(&'static str, Op)> {
    let cs = g.cs();
    let bs = g.bs();
    let sl = g.sl();
    let tb = g.tb();
    let half = (cs / 2).max(bs);
    let mut m = vec![
        ("wa", Op::Write { off: 0, len: half as usize, tag: 0x11 }),
        ("wXY", Op::Write { off: cs - bs, len: (2 * bs) as usize, tag: 0x13 }),
        ("wT", Op::Write { off: tb, len: bs as usize, tag: 0x15 }),
        ("rT", Op::Read { off: tb, len: bs as usize }),
        ("rX", Op::Read { off: 0, len: cs as usize }),
        ("dX", Op::Discard { off: 0, len: cs }),
        ("dXY", Op::Discard { off: 0, len: 2 * cs }),
        ("flush", Op::Flush),
        ("shrink", Op::Shrink),
    ];
    if half < cs {
        m.push(("wb", Op::Write { off: half, len: (cs - half) as usize, tag: 0x12 }));
    }
    if sl < tb {
        m.push(("wS", Op::Write { off: sl, len: bs as usize, tag: 0x14 }));
    }
    m.push(("wY", Op::Write { off: cs, len: cs as usize, tag: 0x16 }));
    m
}

pub fn sched_setups(g: &Geo) -> Vec<(&'static str, &'static str, Vec<Op>)> {
    let cs = g.cs();
    let wx = Op::Write { off: 0, len: cs as usize, tag: 0x51 };
    let wy = Op::Write { off: cs, len: cs as usize, tag: 0x52 };
    vec![
        ("empty", "libfmt", vec![]),
        ("Xdirty", "libfmt", vec![wx.clone()]),
        ("XYflushed", "libfmt", vec![wx.clone(), wy.clone(), Op::Flush]),
        ("Xdiscarded", "libfmt", vec![wx.clone(), Op::Flush, Op::Discard { off: 0, len: cs }]),
        // cold caches: the concurrent calls wait for slice loads (refcount blocks included)
        ("XYcold", "libfmt", vec![wx.clone(), wy.clone(), Op::Flush, Op::Reopen]),
        ("backing", "backing", vec![]),
        ("compressed", "compressed", vec![]),
    ]
}

/// curated multi-operation scenarios aimed at the lock hierarchy and eviction
pub fn sched_curated(g: &Geo) -> Vec<(&'static str, &'static str, Vec<Op>, Vec<Vec<Op>>)> {
    let (cs, bs, sl, tb) = (g.cs(), g.bs(), g.sl(), g.tb());
    let w = |off: u64, len: u64, tag: u32| Op::Write { off, len: len as usize, tag };
    let r = |off: u64, len: u64| Op::Read { off, len: len as usize };
    let mut v = vec![
        // flush vs eviction-driven flush of a sibling slice of one new L2 cluster
        ("flush-vs-evict-sibling", "libfmt", vec![w(tb, bs, 0x53), Op::Flush, w(0, bs, 0x51)], vec![vec![Op::Flush], vec![w(sl.min(tb - cs), bs, 0x14), r(tb, bs)]]),
        // two first writers of one new data cluster + a reader
        ("two-writers-one-reader", "libfmt", vec![], vec![vec![w(0, bs, 0x11)], vec![w(cs - bs, bs, 0x12)], vec![r(0, cs)]]),
        // discard then the freed cluster is re-allocated by a concurrent writer who reads it back
        ("discard-vs-realloc", "libfmt", vec![w(0, cs, 0x51), Op::Flush], vec![vec![Op::Discard { off: 0, len: cs }], vec![w(4 * cs, cs, 0x12), r(4 * cs, cs)]]),
        // three tasks on three slices with a 2-slice cache
        ("three-slices", "libfmt", vec![w(0, bs, 0x51), w(tb, bs, 0x52), Op::Flush], vec![vec![w(0, bs, 0x11)], vec![w(tb, bs, 0x12)], vec![w(2 * tb.min(g.vsize() / 2), bs, 0x13)]]),
        // an idle dirty slice is evicted by a third-slice load; another task looks the slice up while its write-back is in flight
        ("lookup-during-eviction-writeback", "libfmt", vec![w(0, cs, 0x51), w(tb, bs, 0x52)], vec![vec![w(2 * tb.min(g.vsize() / 4), bs, 0x11)], vec![r(0, cs)], vec![w(cs, cs, 0x12)]]),
        ("lookup-during-eviction-writeback-2", "libfmt", vec![w(0, cs, 0x51)], vec![vec![w(tb, bs, 0x11), w(2 * tb.min(g.vsize() / 4), bs, 0x12)], vec![w(cs, cs, 0x13), r(0, 2 * cs)]]),
        // a flush zeroes a new data cluster whose first writer is still busy mapping the next slice, a second writer of that cluster arrives
        ("flush-zeroes-new-data-cluster-vs-second-writer", "libfmt", vec![], vec![vec![w(sl - cs, 2 * cs, 0x11)], vec![Op::Flush], vec![w(sl - cs, bs, 0x12)]]),
        ("flush-zeroes-new-data-cluster-vs-reader", "libfmt", vec![w(tb, bs, 0x51)], vec![vec![w(sl - cs, 2 * cs, 0x11)], vec![Op::Flush], vec![r(sl - cs, cs)]]),
        // the slice a reader has locked is evicted by other lookups; a discard then works on a second copy of it
        ("reader-slice-evicted-under-read", "libfmt", vec![w(0, cs, 0x51), w(tb, bs, 0x52), w(2 * tb.min(g.vsize() / 4), bs, 0x53), Op::Flush], vec![vec![r(0, cs)], vec![r(tb, bs), r(2 * tb.min(g.vsize() / 4), bs), Op::Discard { off: 0, len: cs }, w(2 * cs, cs, 0x11)]]),
        ("writer-slice-evicted-under-write", "libfmt", vec![w(0, cs, 0x51), w(tb, bs, 0x52), w(2 * tb.min(g.vsize() / 4), bs, 0x53), Op::Flush], vec![vec![w(0, bs, 0x12)], vec![r(tb, bs), r(2 * tb.min(g.vsize() / 4), bs), Op::Discard { off: 0, len: cs }, w(2 * cs, cs, 0x11)]]),
        // a discard that waits for the slice lock (a reader holds it), an in-place writer of the same cluster that
        // starts meanwhile, and an allocating writer that may get the released cluster
        ("reader-vs-discard-vs-inplace-write-vs-alloc", "libfmt", vec![w(0, cs, 0x51), Op::Flush], vec![vec![r(0, cs)], vec![Op::Discard { off: 0, len: cs }], vec![w(0, bs, 0x11)], vec![w(2 * cs, cs, 0x12)]]),
        ("flush-vs-discard-vs-inplace-write-vs-alloc", "libfmt", vec![w(0, cs, 0x51), Op::Flush, w(cs, cs, 0x52)], vec![vec![Op::Flush], vec![Op::Discard { off: 0, len: cs }], vec![w(0, bs, 0x11)], vec![w(2 * cs, cs, 0x12)]]),
        // two first writers of one fresh cluster while a flush pass starts (need_flush is cleared at its start)
        ("two-first-writers-vs-flush", "libfmt", vec![w(tb, bs, 0x51)], vec![vec![w(0, bs, 0x11)], vec![w(cs - bs, bs, 0x12)], vec![Op::Flush]]),
        ("first-writer-vs-flush-vs-reader", "data", vec![w(tb, bs, 0x51)], vec![vec![w(4 * cs, bs, 0x11)], vec![Op::Flush], vec![r(4 * cs, cs)]]),
        // something holds the slice's shared lock across a backend request (a reader of a mapped cluster, a flush
        // writing the slice back) while two first writers of one other, unmapped cluster of that slice queue up
        ("reader-holds-slice-vs-two-first-writers", "libfmt", vec![w(0, cs, 0x51), Op::Flush], vec![vec![r(0, cs)], vec![w(cs, bs, 0x11)], vec![w(2 * cs - bs, bs, 0x12)]]),
        ("flush-holds-slice-vs-two-first-writers", "libfmt", vec![w(0, cs, 0x51)], vec![vec![Op::Flush], vec![w(cs, bs, 0x11)], vec![w(2 * cs - bs, bs, 0x12)]]),
        // shrink vs writers
        ("shrink-vs-writers", "libfmt", vec![w(0, cs, 0x51)], vec![vec![Op::Shrink], vec![w(cs, cs, 0x11)], vec![w(tb, bs, 0x12)]]),
        // write dirtying metadata while a flush is in progress, then nothing else (C18)
        ("flush-vs-write-other-slice", "libfmt", vec![w(0, cs, 0x51), w(tb, cs, 0x52), Op::Flush, w(cs, cs, 0x53)], vec![vec![Op::Flush], vec![w(tb + cs, cs, 0x11)]]),
        ("shrink-vs-write-other-slice", "libfmt", vec![w(0, cs, 0x51), w(tb, cs, 0x52), Op::Flush, w(cs, cs, 0x53)], vec![vec![Op::Shrink], vec![w(tb + cs, cs, 0x11)]]),
        ("shrink-vs-discard-other-slice", "libfmt", vec![w(0, cs, 0x51), w(tb, cs, 0x52), Op::Flush, w(cs, cs, 0x53)], vec![vec![Op::Shrink], vec![Op::Discard { off: tb, len: cs }]]),
        ("flush-vs-discard", "libfmt", vec![w(0, cs, 0x51), w(tb, cs, 0x52), Op::Flush, w(cs, cs, 0x53)], vec![vec![Op::Flush], vec![Op::Discard { off: tb, len: cs }]]),
        // multi-cluster write vs sub-cluster write
        ("batch-vs-sub", "libfmt", vec![], vec![vec![w(0, 3 * cs, 0x11)], vec![w(cs, bs, 0x12)], vec![r(0, 2 * cs)]]),
        // overlapping discards of one cluster while a flush holds the slice's read lock / with a cold cache
        ("flush-vs-two-discards", "libfmt", vec![w(0, cs, 0x51), w(cs, cs, 0x52)], vec![vec![Op::Flush], vec![Op::Discard { off: 0, len: cs }], vec![Op::Discard { off: 0, len: 2 * cs }]]),
        ("two-discards-vs-write-cold-cache", "libfmt", vec![w(0, cs, 0x51), Op::Reopen], vec![vec![Op::Discard { off: 0, len: cs }], vec![Op::Discard { off: 0, len: cs }], vec![w(4 * cs, cs, 0x12), r(4 * cs, cs)]]),
        ("flush-vs-two-discards-vs-write", "libfmt", vec![w(0, cs, 0x51)], vec![vec![Op::Flush], vec![Op::Discard { off: 0, len: cs }], vec![Op::Discard { off: 0, len: cs }], vec![w(4 * cs, cs, 0x12)]]),
        // refcount-block eviction (third slice into a 2-slice cache) inside an allocating write, racing a flush
        ("flush-vs-refblock-eviction", "GF-filled", vec![w(200 * cs, cs, 0x51), Op::Discard { off: 0, len: cs }], vec![vec![Op::Flush], vec![w(210 * cs, 6 * cs, 0x11)]]),
        // a writer whose own allocations dirty both cached refblock slices and then needs a third one
        ("flush-vs-writes-evicting-dirty-refblock", "GF-holes", vec![w(200 * cs, cs, 0x51)], vec![vec![Op::Flush], vec![w(201 * cs, cs, 0x11), w(202 * cs, cs, 0x12), w(203 * cs, cs, 0x13), w(204 * cs, cs, 0x14), w(205 * cs, cs, 0x15)]]),
        // shrink while a writer holds a clean L2 slice and waits for an uncached refcount-block slice
        ("shrink-vs-write-cold-refcount", "libfmt", vec![w(0, cs, 0x51), Op::Flush, Op::Reopen, r(0, bs)], vec![vec![Op::Shrink], vec![w(cs, cs, 0x11)]]),
        ("shrink-vs-write-vs-read-cold", "libfmt", vec![w(0, cs, 0x51), w(tb, bs, 0x52), Op::Flush, Op::Reopen, r(0, bs)], vec![vec![Op::Shrink], vec![w(cs, cs, 0x11)], vec![r(tb, bs)]]),
        // two flushes
        ("two-flushes", "libfmt", vec![w(0, cs, 0x51), w(tb, bs, 0x52)], vec![vec![Op::Flush], vec![Op::Flush]]),
        // COW of a backing cluster racing a read and another sub-write of the same cluster
        ("cow-backing-two-writers", "backing", vec![], vec![vec![w(0, bs, 0x11)], vec![w(cs - bs, bs, 0x12)], vec![r(0, cs)]]),
        // a two-cluster write has looked its first cluster up ("from the backing file") and waits for the second
        // cluster's L2 slice; meanwhile another write does the COW of the first cluster and a discard unmaps it again
        ("cow-stale-lookup-vs-cow-vs-discard", "backing", vec![], vec![vec![w(sl - cs, 2 * cs, 0x11)], vec![w(sl - cs, bs, 0x12)], vec![Op::Discard { off: sl - cs, len: cs }]]),
        ("cow-compressed-two-writers", "compressed", vec![], vec![vec![w(0, bs, 0x11)], vec![w(cs - bs, bs, 0x12)], vec![r(0, cs)]]),
    ];
    if sl >= tb {
        v.remove(0);
    }
    v
}

fn sched_image(g: &Geo, kind: &str) -> ImageSet {
    if kind == "GF-filled" {
        return crate::extra::gf_filled_image();
    }
    if kind == "GF-holes" {
        return crate::extra::gf_holes_image();
    }
    images::initial_images(g, &[kind]).remove(0)
}

/// metadata growth racing other operations: the refcount table is relocated (header switch,
/// old table released) and a short L1 table is relocated while other calls are in flight
pub fn growth_sched_scenarios() -> Vec<SchedScenario> {
    let w = |off: u64, len: u64, tag: u32| Op::Write { off, len: len as usize, tag };
    let (cs, tb) = (512u64, 64 * 512u64);
    let mut out = vec![];
    let rt = crate::extra::rt_edge_image();
    let g = crate::extra::g9_wide(140);
    let rt_scn: Vec<(&str, Vec<Op>, Vec<Vec<Op>>)> = vec![
        ("rt-growth-vs-write", vec![], vec![vec![w(8000 * cs, 3 * cs, 0x11)], vec![w(8100 * cs, cs, 0x12)]]),
        ("rt-growth-vs-flush", vec![w(8000 * cs, cs, 0x51)], vec![vec![w(8010 * cs, 3 * cs, 0x11)], vec![Op::Flush]]),
        ("rt-growth-vs-discard", vec![], vec![vec![w(8000 * cs, 3 * cs, 0x11)], vec![Op::Discard { off: 0, len: 2 * cs }]]),
        // the released old table's cluster is not punched: a first write to a fresh guest cluster gets it, a reader races the write
        ("recycled-cluster-write-vs-read", vec![w(8000 * cs, 3 * cs, 0x51)], vec![vec![w(8003 * cs, 512, 0x11)], vec![Op::Read { off: 8003 * cs, len: 512 }]]),
        ("rt-growth-vs-flush-vs-write", vec![w(8000 * cs, cs, 0x51)], vec![vec![w(8010 * cs, 3 * cs, 0x11)], vec![Op::Flush], vec![w(8100 * cs, cs, 0x12)]]),
    ];
    for (name, setup, tasks) in rt_scn {
        out.push(SchedScenario { name: name.into(), img: rt.clone(), cfg: g.cfg_small(), cfg_name: "small".into(), setup, tasks, fused: true });
    }
    // a flush with two refcount passes (refcount block 1 created since the last flush: dirty
    // reftable block) racing writes that take a hole in block 0, the last two clusters of block 1
    // and then need block 2, with a 2-slice refblock cache (the evicted slice is dirty)
    {
        let g = crate::extra::g9_wide(8);
        let img = crate::images::lib_formatted(g.cluster_bits, g.order, g.vsize());
        out.push(SchedScenario {
            name: "flush-two-refcount-passes-vs-writes-creating-refblock".into(),
            img,
            cfg: g.cfg_small(),
            cfg_name: "small".into(),
            setup: vec![w(0, 119 * cs, 0x51), Op::Discard { off: 10 * cs, len: cs }],
            tasks: vec![vec![Op::Flush], vec![w(119 * cs, cs, 0x11), w(120 * cs, cs, 0x12), w(121 * cs, cs, 0x13), w(122 * cs, cs, 0x14)]],
            fused: true,
        });
    }
    let l1 = crate::extra::short_l1_image();
    let g = crate::extra::g9_wide(192);
    let l1_scn: Vec<(&str, Vec<Op>, Vec<Vec<Op>>)> = vec![
        ("l1-relocation-vs-write", vec![], vec![vec![w(64 * tb, cs, 0x11)], vec![w(0, cs, 0x12)]]),
        ("l1-relocation-vs-flush", vec![w(0, cs, 0x51)], vec![vec![w(64 * tb, cs, 0x11)], vec![Op::Flush]]),
        ("l1-relocation-vs-discard", vec![], vec![vec![w(64 * tb, cs, 0x11)], vec![Op::Discard { off: 0, len: cs }]]),
        ("l1-relocation-vs-two-writes", vec![], vec![vec![w(64 * tb, cs, 0x11)], vec![w(130 * tb, cs, 0x12)], vec![w(cs, cs, 0x13)]]),
    ];
    for (name, setup, tasks) in l1_scn {
        out.push(SchedScenario { name: name.into(), img: l1.clone(), cfg: g.cfg_small(), cfg_name: "small".into(), setup, tasks, fused: true });
    }
    out
}

/// all multisets of three single-operation tasks over a reduced menu that spreads over three L2
/// slices of a 2-slice cache (eviction write-backs in flight while other tasks look slices up)
pub fn triple_scenarios(g: &Geo, setups_filter: &[&str], wide: bool) -> Vec<SchedScenario> {
    let (cs, bs, tb) = (g.cs(), g.bs(), g.tb());
    let w = |off: u64, len: u64, tag: u32| Op::Write { off, len: len as usize, tag };
    let mut menu: Vec<(&str, Op)> = vec![
        ("wX2", w(2 * cs, cs, 0x11)),
        ("wT", w(tb, bs, 0x12)),
        ("wU", w(2 * tb.min(g.vsize() / 4), bs, 0x13)),
        ("dX", Op::Discard { off: 0, len: cs }),
        ("rX", Op::Read { off: 0, len: (2 * cs) as usize }),
        ("flush", Op::Flush),
    ];
    if wide {
        menu.extend([
            ("wXY", w(cs - bs, 2 * bs, 0x14)),
            ("dXY", Op::Discard { off: 0, len: 2 * cs }),
            ("wS", w(g.sl().min(tb - cs), bs, 0x15)),
            ("shrink", Op::Shrink),
        ]);
    }
    let cfg = cfg_of(g, "small");
    let mut out = vec![];
    for (sn, ik, setup) in sched_setups(g) {
        if !setups_filter.contains(&sn) {
            continue;
        }
        let img = sched_image(g, ik);
        for i in 0..menu.len() {
            for j in i..menu.len() {
                for k in j..menu.len() {
                    let ops = [&menu[i], &menu[j], &menu[k]];
                    // at least two modifying operations, no operation three times
                    if i == k || ops.iter().filter(|o| !matches!(o.1, Op::Read { .. })).count() < 2 {
                        continue;
                    }
                    let mut tasks = vec![];
                    for (n, (_, op)) in ops.iter().enumerate() {
                        let mut op = (*op).clone();
                        if let Op::Write { tag, .. } = &mut op {
                            *tag += 0x20 * n as u32;
                        }
                        tasks.push(vec![op]);
                    }
                    out.push(SchedScenario {
                        name: format!("triple:{}:{}||{}||{}", sn, ops[0].0, ops[1].0, ops[2].0),
                        img: img.clone(),
                        cfg: cfg.clone(),
                        cfg_name: "small".into(),
                        setup: setup.clone(),
                        tasks,
                        fused: true,
                    });
                }
            }
        }
    }
    out
}

/// two tasks of two operations each (all unordered pairs of 2-sequences over a 6-operation menu)
pub fn duo2_scenarios(g: &Geo, setups_filter: &[&str]) -> Vec<SchedScenario> {
    let (cs, bs, tb) = (g.cs(), g.bs(), g.tb());
    let w = |off: u64, len: u64, tag: u32| Op::Write { off, len: len as usize, tag };
    let menu: Vec<(&str, Op)> = vec![
        ("wX2", w(2 * cs, cs, 0x11)),
        ("wT", w(tb, bs, 0x12)),
        ("wU", w(2 * tb.min(g.vsize() / 4), bs, 0x13)),
        ("dX", Op::Discard { off: 0, len: cs }),
        ("rX", Op::Read { off: 0, len: (2 * cs) as usize }),
        ("flush", Op::Flush),
    ];
    let seqs: Vec<(usize, usize)> = (0..menu.len()).flat_map(|a| (0..menu.len()).filter(move |b| *b != a).map(move |b| (a, b))).collect();
    let cfg = cfg_of(g, "small");
    let mut out = vec![];
    for (sn, ik, setup) in sched_setups(g) {
        if !setups_filter.contains(&sn) {
            continue;
        }
        let img = sched_image(g, ik);
        for i in 0..seqs.len() {
            for j in i..seqs.len() {
                let (a, b) = seqs[i];
                let (c, d) = seqs[j];
                let t0 = vec![menu[a].1.clone(), menu[b].1.clone()];
                let mut t1 = vec![menu[c].1.clone(), menu[d].1.clone()];
                for op in t1.iter_mut() {
                    if let Op::Write { tag, .. } = op {
                        *tag += 0x20;
                    }
                }
                // at least two modifying operations that are not flushes
                let n = t0.iter().chain(t1.iter()).filter(|o| matches!(o, Op::Write { .. } | Op::Discard { .. })).count();
                if n < 2 {
                    continue;
                }
                out.push(SchedScenario {
                    name: format!("duo2:{}:{};{}||{};{}", sn, menu[a].0, menu[b].0, menu[c].0, menu[d].0),
                    img: img.clone(),
                    cfg: cfg.clone(),
                    cfg_name: "small".into(),
                    setup: setup.clone(),
                    tasks: vec![t0, t1],
                    fused: true,
                });
            }
        }
    }
    out
}

pub struct SchedPlan {
    pub scenarios: Vec<SchedScenario>,
}

pub fn sched_scenarios(g: &Geo, setups_filter: &[&str], caches: &[&str], pairs: bool) -> Vec<SchedScenario> {
    let mut out = vec![];
    let menu = sched_menu(g);
    let mut img_cache: std::collections::HashMap<String, ImageSet> = Default::default();
    let mut img = |k: &str| img_cache.entry(k.to_string()).or_insert_with(|| sched_image(g, k)).clone();
    for cn in caches {
        let cfg = cfg_of(g, cn);
        if pairs {
            for (sn, ik, setup) in sched_setups(g) {
                if !setups_filter.contains(&sn) {
                    continue;
                }
                for i in 0..menu.len() {
                    for j in i..menu.len() {
                        let (na, a) = &menu[i];
                        let (nb, b) = &menu[j];
                        let mut b = b.clone();
                        if i == j {
                            // same operation twice: give the second write its own tag
                            match &mut b {
                                Op::Write { tag, .. } => *tag += 0x20,
                                Op::Read { .. } => continue,
                                _ => {}
                            }
                        }
                        // pairs of pure reads cannot conflict
                        if matches!(a, Op::Read { .. }) && matches!(b, Op::Read { .. }) {
                            continue;
                        }
                        out.push(SchedScenario {
                            name: format!("{}:{}||{}", sn, na, nb),
                            img: img(ik),
                            cfg: cfg.clone(),
                            cfg_name: cn.to_string(),
                            setup: setup.clone(),
                            tasks: vec![vec![a.clone()], vec![b]],
                            fused: true,
                        });
                    }
                }
            }
        }
        for (name, ik, setup, tasks) in sched_curated(g) {
            let v = g.vsize();
            let in_range = |o: &Op| match o {
                Op::Write { off, len, .. } | Op::Read { off, len } => *off + *len as u64 <= v,
                _ => true,
            };
            if !(setup.iter().all(in_range) && tasks.iter().flatten().all(in_range)) || ik.starts_with("GF-") && g.cluster_bits != 10 {
                continue;
            }
            out.push(SchedScenario { name: name.into(), img: img(ik), cfg: cfg.clone(), cfg_name: cn.to_string(), setup, tasks, fused: true });
        }
    }
    out
}

pub struct SchedSummary {
    pub execs: u64,
    pub steps: u64,
    pub multi_outcome: u64,
    pub min_bound: i64,
    pub exhausted_n: usize,
    pub total: usize,
    pub samples: Vec<String>,
    pub scen_json: Vec<Value>,
}

/// explore a list of scenarios (in parallel, one scenario per worker) and judge every execution
pub fn sched_explore(run: &Run, want: &[&str], scenarios: &[SchedScenario], bound: usize, per_scn_execs: u64, secs: u64) -> Result<SchedSummary, String> {
    sched_explore_as(run, want, scenarios, bound, per_scn_execs, secs, None)
}

/// `relabel`: report the judged violations under this property (class prefixed with the judging
/// oracle's id), for checks whose property includes concurrent behaviour of one feature
pub fn sched_explore_as(run: &Run, want: &[&str], scenarios: &[SchedScenario], bound: usize, per_scn_execs: u64, secs: u64, relabel: Option<&str>) -> Result<SchedSummary, String> {
    let deadline = deadline_in(secs);
    let results: Vec<(String, Result<crate::sched::ExploreStats, String>, Vec<Violation>)> = scenarios
        .par_iter()
        .map(|sc| {
            let mut viols: Vec<Violation> = vec![];
            let mut last: Result<crate::sched::ExploreStats, String> = Err("not run".into());
            // iterate the deviation bound; each round re-explores from scratch (cheap) so the
            // first counterexample has the fewest deviations
            let mut total = crate::sched::ExploreStats::default();
            // determinism: the default schedule and one deviating schedule, twice each
            for prefix in [vec![], vec![1usize]] {
                let a = sc.execute(&prefix).map(|x| (x.choices.clone(), x.steps, lin::judge(sc, x, want).fingerprint));
                let b2 = sc.execute(&prefix).map(|x| (x.choices.clone(), x.steps, lin::judge(sc, x, want).fingerprint));
                match (a, b2) {
                    (Ok(a), Ok(b2)) => {
                        if a != b2 {
                            return (sc.describe(), Err(format!("replaying schedule {:?} twice gave different observations", prefix)), viols);
                        }
                    }
                    // an out-of-range choice (no second action at the first choice point) is fine for [1]
                    (Err(_), Err(_)) if !prefix.is_empty() => {}
                    // the set-up runs sequentially on a healthy backend: an operation of it that fails, panics or
                    // blocks for ever is a finding about the code under test, not about the harness
                    (Err(e), _) | (_, Err(e)) if e.starts_with("setup operation") => {
                        viols.push(Violation {
                            prop: want[0].to_string(),
                            class: format!("setup-failed:{}|img={}", crate::seq::err_category(&e), sc.img.kind),
                            detail: format!("a set-up operation (run alone, every request completing) did not return Ok: {} [{}]", e, sc.describe()),
                            replay: sc.to_json(&[]),
                        });
                        return (sc.describe(), Ok(crate::sched::ExploreStats::default()), viols);
                    }
                    (Err(e), _) | (_, Err(e)) => return (sc.describe(), Err(e), viols),
                }
            }
            // executions on the multi-megabyte growth images cost ~10 ms each: smaller budget
            let per_scn_execs = if sc.img.files[0].len() > (1 << 20) { per_scn_execs / 20 } else { per_scn_execs };
            for b in 0..=bound {
                let r = explore(sc, b, per_scn_execs, deadline, |sc, x| {
                    let o = lin::judge(sc, x, want);
                    for v in o.violations {
                        if viols.iter().filter(|y| y.class == v.class && y.prop == v.prop).count() < 3 {
                            viols.push(v);
                        }
                    }
                    o.fingerprint
                });
                match r {
                    Ok(st) => {
                        total.executions += st.executions;
                        total.steps += st.steps;
                        total.choice_points_max = total.choice_points_max.max(st.choice_points_max);
                        total.distinct_outcomes = total.distinct_outcomes.max(st.distinct_outcomes);
                        total.exhausted = st.exhausted;
                        total.capped = st.capped;
                        if !st.capped {
                            total.bound_completed = b as i64;
                        }
                        let stop = st.exhausted || st.capped;
                        last = Ok(total.clone());
                        if stop {
                            break;
                        }
                    }
                    Err(e) => {
                        last = Err(e);
                        break;
                    }
                }
            }
            (sc.describe(), last, viols)
        })
        .collect();
    let mut sum = SchedSummary { execs: 0, steps: 0, multi_outcome: 0, min_bound: i64::MAX, exhausted_n: 0, total: scenarios.len(), samples: vec![], scen_json: vec![] };
    for (desc, st, viols) in results.iter() {
        match st {
            Ok(st) => {
                sum.execs += st.executions;
                sum.steps += st.steps;
                if st.distinct_outcomes > 1 {
                    sum.multi_outcome += 1;
                }
                sum.min_bound = sum.min_bound.min(st.bound_completed);
                if st.exhausted {
                    sum.exhausted_n += 1;
                }
                sum.scen_json.push(json!({"scenario": desc, "executions": st.executions, "max_choice_points": st.choice_points_max,
                    "deviation_bound_completed": st.bound_completed, "schedule_space_exhausted": st.exhausted, "capped": st.capped,
                    "distinct_outcomes": st.distinct_outcomes, "nontrivial": st.distinct_outcomes > 1}));
                if sum.samples.len() < 8 {
                    sum.samples.push(desc.clone());
                }
            }
            Err(e) => return Err(format!("{}: {}", desc, e)),
        }
        let mut viols = viols.clone();
        if let Some(to) = relabel {
            for v in viols.iter_mut() {
                v.class = format!("{}:{}", v.prop, v.class);
                v.prop = to.to_string();
            }
        }
        run.add_all(viols);
    }
    if sum.min_bound == i64::MAX {
        sum.min_bound = -1;
    }
    Ok(sum)
}

/// scenarios in which a flush_meta / shrink_caches runs concurrently with something else
pub fn flush_scenarios(thorough: bool) -> Vec<SchedScenario> {
    let g = images::G10;
    let setups: Vec<&str> = if thorough { vec!["empty", "Xdirty", "XYflushed", "Xdiscarded", "XYcold"] } else { vec!["Xdirty", "XYflushed", "XYcold"] };
    let mut v = sched_scenarios(&g, &setups, &["small", "ample"], true);
    v.retain(|s| s.tasks.iter().any(|t| t.iter().any(|o| matches!(o, Op::Flush | Op::Shrink))));
    if let Ok(f) = std::env::var("QMC_ONLY") {
        v.retain(|s| s.name.contains(&f));
    }
    v
}

pub fn sched_family(prop: &str) -> i32 {
    let run = Run::new(prop, "model_checking");
    let thorough = run.thorough();
    let g = images::G10;
    let (mut bound, per_scn_execs, secs): (usize, u64, u64) = if thorough { (3, 400_000, 1200) } else { (2, 15_000, 40) };
    if let Some(b) = std::env::var("QMC_BOUND").ok().and_then(|x| x.parse().ok()) {
        bound = b;
    }
    let setups: Vec<&str> = if thorough {
        vec!["empty", "Xdirty", "XYflushed", "Xdiscarded", "XYcold", "backing", "compressed"]
    } else {
        vec!["empty", "Xdirty", "XYflushed"]
    };
    let mut scenarios = sched_scenarios(&g, &setups, &["small", "ample"], true);
    if thorough {
        scenarios.extend(sched_scenarios(&images::G9, &["empty", "XYflushed"], &["small"], true));
        scenarios.extend(sched_scenarios(&images::G12, &["empty", "Xdirty"], &["small"], true));
        // the curated scenarios again with "complete a request" and "poll its owner" as two
        // separate actions: validates the fused reduction (any violation found only here would
        // show the reduction hides behaviours)
        let mut unfused = sched_scenarios(&g, &[], &["small"], false);
        for s in unfused.iter_mut() {
            s.fused = false;
            s.name = format!("{} [completion and poll split]", s.name);
        }
        scenarios.extend(unfused);
    }
    // three concurrent calls over three slices of a 2-slice cache
    scenarios.extend(triple_scenarios(&g, if thorough { &["Xdirty", "XYflushed", "XYcold"] } else { &["Xdirty"] }, thorough));
    if thorough {
        scenarios.extend(triple_scenarios(&images::G9, &["Xdirty", "XYflushed"], false));
        scenarios.extend(duo2_scenarios(&g, &["Xdirty", "XYcold"]));
    }
    // metadata growth racing other calls (slow executions: 2 MiB images): one of each kind in the quick tier
    scenarios.extend(growth_sched_scenarios().into_iter().filter(|s| thorough || s.name.ends_with("-vs-flush") || s.name.ends_with("-vs-discard") || s.name.starts_with("flush-two-refcount-passes")));
    if let Ok(f) = std::env::var("QMC_ONLY") {
        scenarios.retain(|s| s.name.contains(&f));
    }
    let want: Vec<&str> = match prop {
        "C06" => vec!["C06", "C07"],
        "C07" => vec!["C07", "C06"],
        _ => vec![prop],
    };
    let sum = match sched_explore(&run, &want, &scenarios, bound, per_scn_execs, secs) {
        Ok(s) => s,
        Err(e) => {
            eprintln!("machinery error: {}", e);
            return 2;
        }
    };
    // C07 also covers calls after a backend error ("a call returns Err only for ... a backend error" - it must
    // still return): progress verdicts (deadlock, livelock, panic) of the faulted concurrent executions
    let mut faulted_conc = json!(null);
    if prop == "C07" {
        let (v, j) = faulted_concurrent_part(thorough, "C07");
        run.add_all(v.into_iter().filter(|v| v.class.contains(":deadlock:") || v.class.contains(":livelock:") || v.class.contains(":panic:")).collect());
        faulted_conc = j;
    }
    let cov = json!({
        "faulted_concurrent_part": faulted_conc,
        "states": sum.steps,
        "transitions": sum.steps,
        "traces_validated_against_impl": sum.execs,
        "evaluations": sum.execs,
        "distinct_nontrivial": sum.multi_outcome,
        "rule": "stateless exploration of every schedule (which ready task is polled / which outstanding backend request completes) within the deviation bound, per scenario of 2-3 concurrent API calls on the real code under a deterministic executor; states/transitions = executor steps taken; distinct_nontrivial = scenarios in which different schedules produced more than one distinct outcome (results + final content)",
        "samples": sum.samples,
        "scenarios_total": sum.total,
        "scenarios_exhausted": sum.exhausted_n,
        "min_deviation_bound_completed": sum.min_bound,
        "deviation_bound_target": bound,
        "exhaustive": false,
        "scenarios": sum.scen_json,
    });
    run.finish(cov, vec![
        "a task poll is atomic (single-threaded async code; std locks never held across an await)".into(),
        "completing a request and polling its owner are one action (fused); sound because a task observes a completion only when polled".into(),
        "SimIo applies a request's effect atomically at completion".into(),
    ])
}

// =====================================================================
// CRASH family: C04 C05
// =====================================================================
pub fn crash_family(prop: &str) -> i32 {
    let run = Run::new(prop, "fault_enumeration");
    let thorough = run.thorough();
    // (geometry, images, cfgs, depth, seconds)
    let plans: Vec<SeqPlan> = if !thorough {
        vec![
            SeqPlan { geo: images::G9, images: if prop == "C05" { vec!["libfmt", "data"] } else { vec!["libfmt"] }, cfgs: vec!["small"], depth: 5, secs: 14 },
            SeqPlan { geo: images::G10, images: if prop == "C05" { vec!["libfmt", "data", "compressed", "backing"] } else { vec!["libfmt", "data"] }, cfgs: vec!["small"], depth: if prop == "C05" { 5 } else { 4 }, secs: 24 },
        ]
    } else {
        vec![
            SeqPlan { geo: images::G9, images: vec!["libfmt", "data"], cfgs: vec!["small", "ample"], depth: 6, secs: 400 },
            SeqPlan { geo: images::G10, images: vec!["libfmt", "data", "compressed", "backing", "zero", "compressed-straddle"], cfgs: vec!["small", "ample"], depth: 6, secs: 600 },
            SeqPlan { geo: images::G12, images: vec!["libfmt"], cfgs: vec!["small"], depth: 3, secs: 120 },
        ]
    };
    let oracles = Oracles { c01: true, c04: prop == "C04", c05: prop == "C05", ..Default::default() };
    let mut viol: Vec<Violation> = vec![];
    let mut scen = vec![];
    let (mut states, mut trans, mut windows, mut images_n, mut distinct, mut inexhaustive) = (0u64, 0u64, 0u64, 0u64, 0u64, 0u64);
    let mut samples: Vec<String> = vec![];
    let mut all_complete = true;
    for plan in plans.iter() {
        let imgs: Vec<ImageSet> = images::initial_images(&plan.geo, &plan.images);
        let n = imgs.len() * plan.cfgs.len();
        for img in imgs {
            for cfgn in plan.cfgs.iter() {
                qcow2_rs::verif::set_order_salt(0);
                let cfg = cfg_of(&plan.geo, cfgn);
                let alt = plan.geo.cfg_alt();
                // reopen operations add nothing for crash states (reopen = flush + fresh caches)
                let sc = SeqScenario::new(img.clone(), cfg, alt, cfgn, images::crash_alphabet(&plan.geo), oracles.clone());
                let lim = BfsLimits { depth: plan.depth, max_states: 3_000_000, deadline: deadline_in((plan.secs / n as u64).max(2)) };
                let st = bfs(&sc, &lim, &mut viol);
                states += st.states;
                trans += st.transitions;
                windows += st.counters[1];
                images_n += st.counters[2];
                distinct += st.counters[3];
                inexhaustive += st.counters[4];
                if st.capped || st.depth_completed < st.depth_target {
                    all_complete = false;
                }
                for s in st.samples.iter().take(2) {
                    if samples.len() < 10 {
                        samples.push(format!("{}: crash images of every fsync window of history [{}]", crate::hist::Scenario::name(&sc), s));
                    }
                }
                let mut j = stats_json(&crate::hist::Scenario::name(&sc), &st);
                j["windows"] = json!(st.counters[1]);
                j["crash_images"] = json!(st.counters[2]);
                j["distinct_images_checked"] = json!(st.counters[3]);
                j["windows_not_enumerated_completely"] = json!(st.counters[4]);
                scen.push(j);
            }
        }
    }
    {
        // an L1 table of several flush blocks: first writes below the last entry of a block
        let gw = crate::extra::g9_wide(130);
        let img = images::lib_formatted(gw.cluster_bits, gw.order, gw.vsize());
        let (cs, tb) = (gw.cs(), gw.tb());
        let w = |off: u64, len: u64, tag: u32| Op::Write { off, len: len as usize, tag };
        let alpha = vec![w(0, cs, 1), w(63 * tb, cs, 5), w(64 * tb, cs, 2), w(127 * tb + cs, cs, 3), Op::Flush, Op::Sync];
        let mut sc = SeqScenario::new(img, gw.cfg_small(), gw.cfg_alt(), "small", alpha, oracles.clone());
        sc.full_sweep = false;
        let lim = BfsLimits { depth: if thorough { 5 } else { 3 }, max_states: 3_000_000, deadline: deadline_in(if thorough { 200 } else { 8 }) };
        let st = bfs(&sc, &lim, &mut viol);
        states += st.states;
        trans += st.transitions;
        windows += st.counters[1];
        images_n += st.counters[2];
        distinct += st.counters[3];
        inexhaustive += st.counters[4];
        if st.capped || st.depth_completed < st.depth_target {
            all_complete = false;
        }
        let mut j = stats_json(&format!("{} (130 L2 tables)", crate::hist::Scenario::name(&sc)), &st);
        j["crash_images"] = json!(st.counters[2]);
        j["distinct_images_checked"] = json!(st.counters[3]);
        scen.push(j);
    }
    {
        // metadata growth inside the crash family: creation of the refcount block behind the last entry
        // of a refcount-table flush block (and, with the 70-cluster write, relocation of the refcount
        // table while that block's entry is still dirty), relocation of the refcount table, relocation
        // of a two-cluster L1 table whose old clusters are reused at once
        let gw = crate::extra::g9_wide(140);
        let (cs, tb) = (gw.cs(), gw.tb());
        let w = |off: u64, len: u64, tag: u32| Op::Write { off, len: len as usize, tag };
        let growth: Vec<(ImageSet, Geo, Vec<Op>, usize, usize)> = vec![
            (crate::extra::rb63_edge_image(), crate::extra::g9_wide(140), vec![w(8000 * cs, cs, 1), w(8001 * cs, cs, 2), w(8010 * cs, 3 * cs, 3), w(8200 * cs, 70 * cs, 6), Op::Check, Op::Flush, Op::Sync], if thorough { 4 } else { 3 }, 1),
            (crate::extra::rt_edge_image(), crate::extra::g9_wide(140), vec![w(8000 * cs, 3 * cs, 1), w(8010 * cs, cs, 2), Op::Flush, Op::Sync], 3, 3),
            // three refblocks over a 2-slice refblock cache: check() walks them all and evicts the slice an
            // allocation has just dirtied; the new mapping sits in an L2 table that is on disk already
            (crate::extra::filled_image("G9w-three-rb", "three-rb", 4, 150), crate::extra::g9_wide(4), vec![w(190 * cs, cs, 1), w(191 * cs, cs, 2), Op::Check, Op::Flush, Op::Sync], if thorough { 5 } else { 3 }, 3),
            (crate::extra::short_l1_two_image(), crate::extra::g9_wide(192), vec![w(130 * tb, cs, 4), w(64 * tb, cs, 2), w(191 * tb, 2 * cs, 5), Op::Flush, Op::Sync], 3, 3),
        ];
        for (img, gw, alpha, depth, crash_k) in growth {
            let mut sc = SeqScenario::new(img, gw.cfg_small(), gw.cfg_alt(), "small", alpha, oracles.clone());
            sc.full_sweep = false;
            if crash_k < 3 {
                // windows of the 70-cluster write: all-lost / all-kept and single-block deviations
                sc.crash_k = crash_k;
                sc.crash_cap = 1 << 8;
            }
            let lim = BfsLimits { depth, max_states: 3_000_000, deadline: deadline_in(if thorough { 200 } else { 8 }) };
            let st = bfs(&sc, &lim, &mut viol);
            states += st.states;
            trans += st.transitions;
            windows += st.counters[1];
            images_n += st.counters[2];
            distinct += st.counters[3];
            inexhaustive += st.counters[4];
            if st.capped || st.depth_completed < st.depth_target {
                all_complete = false;
            }
            let mut j = stats_json(&crate::hist::Scenario::name(&sc), &st);
            j["crash_images"] = json!(st.counters[2]);
            j["distinct_images_checked"] = json!(st.counters[3]);
            scen.push(j);
        }
    }
    {
        // slice sizes of the two caches differ: the key range of the slices below a top-table block is
        // computed per cache (L1 index 33 / 65: beyond what the other cache's slice size would cover)
        let w = |off: u64, len: u64, tag: u32| Op::Write { off, len: len as usize, tag };
        for (l2b, rbb, tables, idx) in [(9u8, 10u8, 40u64, 33u64), (10, 9, 70, 65)] {
            let gm = crate::extra::mixed_slice_geo(l2b, rbb, tables);
            let (cs, tb) = (gm.cs(), gm.tb());
            let alpha = vec![w(idx * tb, cs, 1), w((idx + 1) * tb + cs, cs, 2), w(cs, cs, 3), Op::Flush, Op::Sync];
            let mut sc = SeqScenario::new(crate::extra::mixed_slice_image(&gm), gm.cfg_small(), gm.cfg_alt(), "small", alpha, oracles.clone());
            sc.full_sweep = false;
            let lim = BfsLimits { depth: if thorough { 4 } else { 3 }, max_states: 3_000_000, deadline: deadline_in(if thorough { 200 } else { 8 }) };
            let st = bfs(&sc, &lim, &mut viol);
            states += st.states;
            trans += st.transitions;
            windows += st.counters[1];
            images_n += st.counters[2];
            distinct += st.counters[3];
            inexhaustive += st.counters[4];
            if st.capped || st.depth_completed < st.depth_target {
                all_complete = false;
            }
            let mut j = stats_json(&crate::hist::Scenario::name(&sc), &st);
            j["crash_images"] = json!(st.counters[2]);
            j["distinct_images_checked"] = json!(st.counters[3]);
            scen.push(j);
        }
    }
    run.add_all(viol);
    // crash states of concurrent histories (C04 quantifies over schedules too)
    let mut conc = json!(null);
    if prop == "C04" {
        let g = images::G10;
        let mut sc = sched_scenarios(&g, &["XYflushed", "Xdirty"], &["small"], true);
        if thorough {
            // three concurrent calls, one of them a flush, over three slices of a 2-slice cache
            let mut tr = triple_scenarios(&g, &["Xdirty", "XYflushed"], false);
            tr.retain(|s| s.tasks.iter().flatten().any(|o| matches!(o, Op::Flush)));
            sc.extend(tr);
        }
        sc.retain(|s| s.tasks.iter().flatten().any(|o| matches!(o, Op::Write { .. } | Op::Discard { .. })));
        let (b, per, secs) = if thorough { (2, 100_000, 600) } else { (1, 2_000, 20) };
        match sched_explore(&run, &["C04"], &sc, b, per, secs) {
            Ok(sum) => {
                let n = crate::lin::CRASH_IMAGES.load(std::sync::atomic::Ordering::Relaxed);
                images_n += n;
                distinct += n;
                conc = json!({"scenarios": sum.total, "executions": sum.execs, "distinct_crash_images_checked": n, "deviation_bound_completed": sum.min_bound, "deviation_bound_target": b, "samples": sum.samples});
            }
            Err(e) => {
                println!("machinery failure: {}", e);
                return 2;
            }
        }
    }
    // C04 quantifies over every history: also the ones in which a backend request failed. Every
    // crash state behind the failed request, incl. the retried flush after the backend healed.
    let mut faulted = json!(null);
    if prop == "C04" {
        let before = crate::lin::CRASH_IMAGES.load(std::sync::atomic::Ordering::Relaxed);
        let (v, mut j) = faulted_histories_part(thorough, "C04");
        run.add_all(v);
        let n = crate::lin::CRASH_IMAGES.load(std::sync::atomic::Ordering::Relaxed) - before;
        j["distinct_crash_images_checked"] = json!(n);
        images_n += n;
        distinct += n;
        // and with the requests of the retried flush completing in any order
        let (v2, j2) = faulted_concurrent_part(thorough, "C04");
        run.add_all(v2);
        j["retried_flush_under_the_scheduler"] = j2;
        faulted = j;
    }
    if prop == "C05" {
        // task 0 syncs while another task works on other ranges; every crash state after the sync
        let g = images::G10;
        let (cs, bs, sl, tb) = (g.cs(), g.bs(), g.sl(), g.tb());
        let w = |off: u64, len: u64, tag: u32| Op::Write { off, len: len as usize, tag };
        let r = |off: u64, len: u64| Op::Read { off, len: len as usize };
        let img = images::lib_formatted(g.cluster_bits, g.order, g.vsize());
        let others: Vec<(&str, Vec<Op>)> = vec![
            ("write-sibling-slice", vec![w(sl, bs, 0x14)]),
            ("write-other-table", vec![w(tb, bs, 0x15)]),
            ("read-other-table", vec![r(tb, bs)]),
            ("write-sibling-then-read-other-table", vec![w(sl, bs, 0x14), r(tb, bs)]),
            ("write-next-cluster", vec![w(cs, cs, 0x16)]),
            ("discard-next-cluster", vec![Op::Discard { off: cs, len: cs }]),
            ("flush", vec![Op::Flush]),
            ("shrink", vec![Op::Shrink]),
        ];
        let setups: Vec<(&str, Vec<Op>)> = vec![
            ("X-dirty", vec![w(0, cs, 0x51)]),
            ("X-dirty-other-table-flushed", vec![w(tb, bs, 0x53), Op::Flush, w(0, bs, 0x51)]),
            ("XY-flushed-Y-rewritten", vec![w(0, cs, 0x51), w(cs, cs, 0x52), Op::Flush, w(cs, cs, 0x54)]),
        ];
        let mut sc = vec![];
        for (sn, setup) in setups.iter() {
            for (on, ops) in others.iter() {
                for cfgn in ["small", "ample"] {
                    sc.push(SchedScenario { name: format!("{}:sync||{}", sn, on), img: img.clone(), cfg: cfg_of(&g, cfgn), cfg_name: cfgn.into(), setup: setup.clone(), tasks: vec![vec![Op::Sync], ops.clone()], fused: true });
                }
            }
        }
        let (b, per, secs) = if thorough { (3, 100_000, 600) } else { (2, 3_000, 20) };
        match sched_explore(&run, &["C05"], &sc, b, per, secs) {
            Ok(sum) => {
                let n = crate::lin::CRASH_IMAGES.load(std::sync::atomic::Ordering::Relaxed);
                images_n += n;
                distinct += n;
                conc = json!({"scenarios": sum.total, "executions": sum.execs, "distinct_crash_images_checked": n, "deviation_bound_completed": sum.min_bound, "deviation_bound_target": b, "samples": sum.samples});
            }
            Err(e) => {
                println!("machinery failure: {}", e);
                return 2;
            }
        }
    }
    let cov = json!({
        "concurrent_part": conc,
        "faulted_histories_part": faulted,
        "evaluations": images_n,
        "distinct_nontrivial": distinct,
        "rule": "for every transition of the explicit-state BFS over operation histories: the backend request log is cut at completed fsyncs; for every window touched by the transition every crash image = durable image x per-512-byte-block choice among {durable value, value after each un-synced request} is enumerated (complete product when <= 2^14 images, else all images within 3 block deviations of both extremes); distinct_nontrivial = images distinct by content (and sync point for C05) that were actually judged by the oracle",
        "samples": samples,
        "states": states,
        "transitions": trans,
        "windows": windows,
        "windows_not_enumerated_completely": inexhaustive,
        "exhaustive": all_complete && inexhaustive == 0,
        "scenarios": scen,
    });
    run.finish(cov, vec![
        "crash model: requests completed before an fsync was submitted are durable once it completes; everything else persists, is lost or tears independently per 512-byte block".into(),
        "no tearing inside a 512-byte block; no reordering across a completed fsync".into(),
        "SpecKit checker decides safety of an image (C04); the library itself opens crash images for C05".into(),
    ])
}


/// A backend request fails *inside a concurrent execution*: for a few scenarios of two calls, every
/// position k of the failing request x every schedule within deviation bound 1. Afterwards the
/// backend is healed and the end state is judged like any concurrent execution, failed calls being
/// optional: no panic or deadlock, per-block linearizability of what the device reads, content equal
/// after flush + reopen.
pub fn faulted_concurrent_part(thorough: bool, prop: &str) -> (Vec<Violation>, Value) {
    let g = images::G10;
    let (cs, bs, tb) = (g.cs(), g.bs(), g.tb());
    let w = |off: u64, len: u64, tag: u32| Op::Write { off, len: len as usize, tag };
    let r = |off: u64, len: u64| Op::Read { off, len: len as usize };
    let img = images::lib_formatted(g.cluster_bits, g.order, g.vsize());
    let cold = vec![w(0, cs, 0x51), w(tb, bs, 0x52), Op::Flush, Op::Reopen];
    let warm = vec![w(0, cs, 0x51), w(tb, bs, 0x52), Op::Flush];
    let mut scn: Vec<(&str, Vec<Op>, Vec<Vec<Op>>)> = vec![
        ("cold-read||cold-read", cold.clone(), vec![vec![r(tb, bs)], vec![r(0, bs)]]),
        ("cold-write||cold-read", cold.clone(), vec![vec![w(tb + cs, bs, 0x11)], vec![r(0, cs)]]),
        ("write||flush", warm.clone(), vec![vec![w(cs, cs, 0x11)], vec![Op::Flush]]),
        ("discard||write", warm.clone(), vec![vec![Op::Discard { off: 0, len: cs }], vec![w(2 * cs, cs, 0x11)]]),
    ];
    // three loaders of one L2 slice, two of the loads fail (pairs of failing requests, see below)
    let triple_cold = scn.len();
    scn.push(("cold-read||cold-read||cold-read", cold.clone(), vec![vec![r(0, bs)], vec![r(bs, bs)], vec![r(cs, bs)]]));
    // a two-cluster allocating write one of whose clusters cannot be zeroed (hole punch and its fallback
    // fail: pairs of failing requests), then an acknowledged write into the other cluster
    let batch_then_sub = scn.len();
    scn.push(("batch-write;sub-write||read", warm.clone(), vec![vec![w(4 * cs, 2 * cs, 0x11), w(4 * cs, bs, 0x12)], vec![r(0, bs)]]));
    // an allocating write whose new cluster cannot be zeroed (pairs of failing requests), then a flush that
    // zeroes the still-new cluster while a second write into that cluster arrives
    let failed_zero_flush = scn.len();
    scn.push(("write;flush||sub-write", warm.clone(), vec![vec![w(4 * cs, cs, 0x11), Op::Flush], vec![w(4 * cs + bs, bs, 0x12)]]));
    if prop == "C04" {
        // crash states of a flush that is retried after one of its requests failed, with requests
        // completing in any order (two dirty slices of an L2 table that is on disk already)
        let sl = g.sl();
        let two_dirty = vec![w(0, bs, 0x51), w(sl, bs, 0x52), Op::Flush, w(cs, cs, 0x53), w(sl + cs, cs, 0x54)];
        scn = vec![
            ("flush;flush", two_dirty.clone(), vec![vec![Op::Flush, Op::Flush]]),
            ("flush;flush||write", two_dirty.clone(), vec![vec![Op::Flush, Op::Flush], vec![w(2 * cs, cs, 0x11)]]),
        ];
    }
    if thorough && prop != "C04" {
        scn.push(("cold-write||cold-write", cold.clone(), vec![vec![w(tb + cs, bs, 0x11)], vec![w(cs, bs, 0x12)]]));
        scn.push(("discard||flush", warm.clone(), vec![vec![Op::Discard { off: 0, len: cs }], vec![Op::Flush]]));
        scn.push(("write-third-slice||read", warm.clone(), vec![vec![w(2 * tb, bs, 0x11)], vec![r(0, cs)]]));
    }
    let scenarios: Vec<SchedScenario> = scn
        .into_iter()
        .map(|(n, setup, tasks)| SchedScenario { name: format!("faulted:{}", n), img: img.clone(), cfg: g.cfg_small(), cfg_name: "small".into(), setup, tasks, fused: true })
        .collect();
    // positions: up to the number of requests of the default schedule (+ a few)
    let mut jobs: Vec<(usize, usize, Option<usize>)> = vec![];
    for (si, sc) in scenarios.iter().enumerate() {
        let n = match sc.execute(&[]) {
            Ok(x) => x.world.sim.borrow().reqs.len() - x.log_start,
            Err(_) => 0,
        };
        for k in 0..(n + 2).min(48) {
            jobs.push((si, k, None));
            if prop != "C04" && (si == triple_cold || si == batch_then_sub || si == failed_zero_flush) {
                for k2 in k + 1..(n + 2).min(48) {
                    jobs.push((si, k, Some(k2)));
                }
            }
        }
    }
    let deadline = deadline_in(if thorough { 300 } else { 15 });
    let want: Vec<&str> = if prop == "C04" { vec!["C04"] } else { vec!["C17", "C06", "C02"] };
    let results: Vec<(u64, Vec<Violation>)> = jobs
        .par_iter()
        .map(|&(si, k, k2)| {
            let sc = &scenarios[si];
            let mut viols: Vec<Violation> = vec![];
            crate::sched::FAIL_KTH.with(|c| c.set(Some(k)));
            crate::sched::FAIL_KTH2.with(|c| c.set(k2));
            let mut execs = 0u64;
            // the three loaders need two deviations (second loader queued behind the first, third one
            // arriving while the second loads)
            for b in 0..=(if thorough || (prop != "C04" && si == triple_cold) { 2 } else { 1 }) {
                let r = explore(sc, b, 3_000, deadline, |sc, x| {
                    if std::env::var("QMC_DEBUG_FC").is_ok() && x.choices.iter().all(|c| *c == 0) {
                        eprintln!("{} k={} k2={:?}: {:?} trace={:?} log={:?}", sc.name, k, k2, x.records.iter().map(|r| format!("T{} {} -> {}", r.task, r.op.short(), r.res.short())).collect::<Vec<_>>(), x.trace, x.world.sim.borrow().log_lines(x.log_start));
                    }
                    let o = lin::judge(sc, x, &want);
                    for mut v in o.violations {
                        v.class = format!("concurrent-fault:{}:{}", v.prop, v.class);
                        v.detail = match k2 {
                            None => format!("{} [request {} of the concurrent phase failed]", v.detail, k),
                            Some(k2) => format!("{} [requests {} and {} of the concurrent phase failed]", v.detail, k, k2),
                        };
                        v.prop = prop.to_string();
                        if viols.iter().filter(|y| y.class == v.class).count() < 2 {
                            viols.push(v);
                        }
                    }
                    o.fingerprint
                });
                match r {
                    Ok(st) => {
                        execs += st.executions;
                        if st.exhausted || st.capped {
                            break;
                        }
                    }
                    Err(_) => break,
                }
            }
            crate::sched::FAIL_KTH.with(|c| c.set(None));
            crate::sched::FAIL_KTH2.with(|c| c.set(None));
            (execs, viols)
        })
        .collect();
    let mut viols = vec![];
    let mut execs = 0;
    for (e, v) in results {
        execs += e;
        viols.extend(v);
    }
    (viols, json!({"scenarios": scenarios.len(), "fault_positions": jobs.len(), "executions": execs,
        "rule": "for each scenario of two concurrent calls and each position k: the k-th request submitted in the concurrent phase fails (for the three cold readers of one slice and for the two-cluster write also every pair of requests), every schedule within the deviation bound; the backend heals; end state judged (no panic/deadlock, per-block linearizability with failed calls optional, content equal after flush + reopen)"}))
}

/// every history of the fault alphabet x every single request failing, heal, flush until Ok,
/// then old device vs. a device opened on the same bytes (the C02 oracle inside fault.rs)
pub fn faulted_histories_part(thorough: bool, prop: &str) -> (Vec<Violation>, Value) {
    use crate::fault::{all_histories, FaultScenario, FaultStats, Plan};
    let plans: Vec<(Geo, Vec<&str>, usize)> = if thorough {
        vec![(images::G9, vec!["libfmt", "data"], 3), (images::G10, vec!["libfmt", "data", "compressed", "backing"], 3)]
    } else {
        vec![(images::G10, vec!["libfmt", "data"], 2), (images::G9, vec!["data"], 2)]
    };
    let deadline = deadline_in(if thorough { 600 } else { 15 });
    let mut viols = vec![];
    let (mut hn, mut runs) = (0u64, 0u64);
    let mut capped = false;
    for (g, kinds, depth) in plans {
        for img in images::initial_images(&g, &kinds) {
            let sc = FaultScenario { img: img.clone(), cfg: cfg_of(&g, "small"), cfg_name: "small".to_string(), crash_oracle: prop == "C04" };
            let mut alphabet = images::crash_alphabet(&g);
            alphabet.retain(|o| !matches!(o, Op::Sync));
            let hists = all_histories(&alphabet, depth);
            let results: Vec<(FaultStats, Vec<Violation>)> = hists
                .par_iter()
                .map(|h| {
                    let mut st = FaultStats::default();
                    let mut v = vec![];
                    if std::time::Instant::now() > deadline {
                        return (st, v);
                    }
                    st.histories = 1;
                    if let Ok((start, n)) = sc.count_requests(h) {
                        for i in start..n {
                            v.extend(sc.run(h, &Plan::Ids(vec![i]), &mut st));
                        }
                        v.extend(sc.run(h, &Plan::Kind('F'), &mut st));
                        if let Ok((s2, n2)) = sc.count_requests_nopunch(h) {
                            for i in s2..n2 {
                                v.extend(sc.run(h, &Plan::NoPunchIds(vec![i]), &mut st));
                            }
                        }
                        // every write of one flush's write-back fails together, and every pair of them
                        for ids in sc.flush_write_ids(h) {
                            v.extend(sc.run(h, &Plan::Ids(ids.clone()), &mut st));
                            if ids.len() <= 6 {
                                for a in 0..ids.len() {
                                    for b in a + 1..ids.len() {
                                        v.extend(sc.run(h, &Plan::Ids(vec![ids[a], ids[b]]), &mut st));
                                    }
                                }
                            }
                        }
                    }
                    v.retain(|x| x.prop == prop);
                    let mut seen = std::collections::HashSet::new();
                    v.retain(|x| seen.insert(x.class.clone()));
                    (st, v)
                })
                .collect();
            for (s, v) in results {
                hn += s.histories;
                runs += s.runs;
                viols.extend(v);
                if s.histories == 0 {
                    capped = true;
                }
            }
        }
    }
    (viols, json!({"histories": hn, "fault_runs": runs, "capped": capped,
        "rule": "all histories of the fault alphabet up to the depth x one run per backend request failing (+ every fsync failing); heal; flush_meta until Ok; the old device and a device opened on the same bytes must read the same"}))
}

// =====================================================================
// FAULT: C17
// =====================================================================
pub fn fault_check() -> i32 {
    use crate::fault::{all_histories, FaultScenario, FaultStats, Plan};
    let run = Run::new("C17", "fault_enumeration");
    let thorough = run.thorough();
    // (geometry, image kinds, cfg, depth, pairs)
    let plans: Vec<(Geo, Vec<&str>, &str, usize, bool)> = if !thorough {
        vec![(images::G9, vec!["libfmt"], "small", 3, false), (images::G10, vec!["libfmt", "data"], "small", 3, false), (images::G10, vec!["backing", "compressed"], "small", 2, false)]
    } else {
        vec![
            (images::G9, vec!["libfmt", "data"], "small", 4, false),
            (images::G10, vec!["libfmt", "data", "compressed", "backing"], "small", 4, false),
            (images::G10, vec!["libfmt", "data"], "ample", 3, true),
            (images::G12, vec!["libfmt"], "small", 3, false),
        ]
    };
    qcow2_rs::verif::set_order_salt(0);
    let deadline = deadline_in(if thorough { 1500 } else { 40 });
    let mut total = FaultStats::default();
    // L1 growth under faults: (image, alphabet, depth)
    let growth: Vec<(ImageSet, Geo, Vec<Op>, usize)> = {
        let w = |off: u64, len: u64, tag: u32| Op::Write { off, len: len as usize, tag };
        let (cs, tb) = (512u64, 64 * 512u64);
        vec![
            (images::initial_images(&images::G9, &["shortl1"]).remove(0), images::G9, vec![w(tb, cs, 1), w(2 * tb + cs, cs, 2), w(0, cs, 4), Op::Flush], if thorough { 3 } else { 2 }),
            (crate::extra::short_l1_image(), crate::extra::g9_wide(192), vec![w(tb, cs, 1), w(64 * tb, cs, 2), w(130 * tb, cs, 4), Op::Flush], 2),
            // refcount-table growth under faults (two free clusters are left under the old table)
            (crate::extra::rt_edge_image(), crate::extra::g9_wide(140), vec![w(8000 * cs, 3 * cs, 1), w(8010 * cs, cs, 2), Op::Flush], if thorough { 3 } else { 2 }),
        ]
    };
    let mut samples = vec![];
    let mut scen = vec![];
    let mut capped = false;
    for (g, kinds, cfgn, depth, pairs) in plans {
        for img in images::initial_images(&g, &kinds) {
            let sc = FaultScenario { img: img.clone(), cfg: cfg_of(&g, cfgn), cfg_name: cfgn.to_string(), crash_oracle: false };
            {
                // a request failing while the device is opened, qcow2_prep_io() retried
                let (n, v) = sc.open_fault_runs();
                total.runs += n;
                run.add_all(v);
            }
            let mut alphabet = images::crash_alphabet(&g);
            alphabet.retain(|o| !matches!(o, Op::Sync));
            let hists = all_histories(&alphabet, depth);
            let results: Vec<(FaultStats, Vec<Violation>)> = hists
                .par_iter()
                .map(|h| {
                    let mut st = FaultStats::default();
                    let mut v = vec![];
                    if std::time::Instant::now() > deadline {
                        return (st, v);
                    }
                    st.histories = 1;
                    let (start, n) = match sc.count_requests(h) {
                        Ok(x) => x,
                        Err(_) => return (st, v),
                    };
                    st.requests = (n - start) as u64;
                    for i in start..n {
                        v.extend(sc.run(h, &Plan::Ids(vec![i]), &mut st));
                    }
                    if pairs && n - start <= 40 {
                        for i in start..n {
                            for j in i + 1..n {
                                v.extend(sc.run(h, &Plan::Ids(vec![i, j]), &mut st));
                            }
                        }
                    }
                    for k in ['R', 'W', 'Z', 'F'] {
                        v.extend(sc.run(h, &Plan::Kind(k), &mut st));
                    }
                    v.extend(sc.run(h, &Plan::PunchUnsupported, &mut st));
                    // hole punching unsupported and one request failing (e.g. the zero-write fallback)
                    if depth <= 3 {
                        if let Ok((s2, n2)) = sc.count_requests_nopunch(h) {
                            for i in s2..n2 {
                                v.extend(sc.run(h, &Plan::NoPunchIds(vec![i]), &mut st));
                            }
                        }
                    }
                    // keep one instance per class per history
                    let mut seen = std::collections::HashSet::new();
                    v.retain(|x| seen.insert(x.class.clone()));
                    (st, v)
                })
                .collect();
            let mut st = FaultStats::default();
            let mut viols = vec![];
            for (s, v) in results {
                st.histories += s.histories;
                st.runs += s.runs;
                st.changed_result += s.changed_result;
                st.requests += s.requests;
                viols.extend(v);
            }
            if (st.histories as usize) < hists.len() {
                capped = true;
            }
            run.add_all(viols);
            if samples.len() < 8 {
                samples.push(format!("{} {} depth {}: e.g. history [{}] with request k failing for every k", img.name, cfgn, depth, hist_str(&hists[hists.len() / 2])));
            }
            scen.push(json!({"image": img.name, "cfg": cfgn, "depth": depth, "pairs": pairs, "histories": st.histories, "of": hists.len(),
                "fault_runs": st.runs, "runs_where_a_request_failed": st.changed_result, "requests_in_fault_free_runs": st.requests}));
            total.histories += st.histories;
            total.runs += st.runs;
            total.changed_result += st.changed_result;
            total.requests += st.requests;
        }
    }
    // a request failing inside a concurrent execution
    let (cv, conc_json) = faulted_concurrent_part(thorough, "C17");
    run.add_all(cv);
    for (img, g, alphabet, depth) in growth {
        let sc = FaultScenario { img: img.clone(), cfg: cfg_of(&g, "small"), cfg_name: "small".to_string(), crash_oracle: false };
        let hists = all_histories(&alphabet, depth);
        let results: Vec<(FaultStats, Vec<Violation>)> = hists
            .par_iter()
            .map(|h| {
                let mut st = FaultStats::default();
                let mut v = vec![];
                st.histories = 1;
                let (start, n) = match sc.count_requests(h) {
                    Ok(x) => x,
                    Err(_) => return (st, v),
                };
                st.requests = (n - start) as u64;
                for i in start..n {
                    v.extend(sc.run(h, &Plan::Ids(vec![i]), &mut st));
                }
                for k in ['W', 'F'] {
                    v.extend(sc.run(h, &Plan::Kind(k), &mut st));
                }
                let mut seen = std::collections::HashSet::new();
                v.retain(|x| seen.insert(x.class.clone()));
                (st, v)
            })
            .collect();
        let mut st = FaultStats::default();
        for (s, v) in results {
            st.histories += s.histories;
            st.runs += s.runs;
            st.changed_result += s.changed_result;
            st.requests += s.requests;
            run.add_all(v);
        }
        scen.push(json!({"image": img.name, "cfg": "small", "depth": depth, "pairs": false, "histories": st.histories, "of": hists.len(),
            "fault_runs": st.runs, "runs_where_a_request_failed": st.changed_result, "requests_in_fault_free_runs": st.requests}));
        total.histories += st.histories;
        total.runs += st.runs;
        total.changed_result += st.changed_result;
        total.requests += st.requests;
    }
    let cov = json!({
        "evaluations": total.runs,
        "distinct_nontrivial": total.changed_result,
        "rule": "for every history of the reduced alphabet at the stated depth: one run per backend request with exactly that request failing (plus all pairs where stated, plus 'every request of kind R/W/Z/F fails', 'hole punch unsupported', 'hole punch unsupported + one request failing'), plus one run per request of qcow2_prep_io() failing with the open retried, plus faults inside concurrent executions; distinct_nontrivial = runs in which the injected fault actually hit a request",
        "samples": samples,
        "histories": total.histories,
        "exhaustive": !capped,
        "faults_inside_concurrent_executions": conc_json,
        "scenarios": scen,
    });
    run.finish(cov, vec![
        "a failed write/zero request has no effect on the file".into(),
        "after the fault the backend heals completely; flush_meta is retried at most 4 times".into(),
    ])
}


// =====================================================================
// C10: copy-on-write over backing / compressed sources
// =====================================================================
pub fn cow_check() -> i32 {
    let run = Run::new("C10", "model_checking");
    let thorough = run.thorough();
    let kinds_all = vec!["backing", "backing-short", "backing-long", "chain2", "compressed", "compressed-boundary", "compressed-straddle"];
    let plans: Vec<(Geo, Vec<&str>, Vec<&str>, usize, u64)> = if !thorough {
        vec![(images::G10, kinds_all.clone(), vec!["small"], 4, 40), (images::G9, vec!["backing", "compressed", "compressed-straddle"], vec!["small"], 3, 10)]
    } else {
        vec![
            (images::G10, kinds_all.clone(), vec!["small", "ample"], 5, 600),
            (images::G9, kinds_all.clone(), vec!["small"], 5, 300),
            (images::G12, vec!["backing", "backing-short", "compressed", "compressed-boundary", "compressed-straddle"], vec!["small", "default"], 3, 200),
        ]
    };
    let oracles = Oracles { c01: true, c02: true, c03: true, c10: true, c16: false, c18: false, ..Default::default() };
    let mut viol: Vec<Violation> = vec![];
    let mut scen = vec![];
    let (mut states, mut trans, mut outcomes) = (0u64, 0u64, 0u64);
    let mut samples: Vec<String> = vec![];
    let mut all_complete = true;
    for (g, kinds, cfgs, depth, secs) in plans.iter() {
        let imgs = images::initial_images(g, kinds);
        let n = (imgs.len() * cfgs.len()) as u64;
        for img in imgs {
            for cfgn in cfgs.iter() {
                qcow2_rs::verif::set_order_salt(0);
                let mut sc = SeqScenario::new(img.clone(), cfg_of(g, cfgn), g.cfg_alt(), cfgn, images::cow_alphabet(g), oracles.clone());
                sc.relabel = Some("C10".into());
                let lim = BfsLimits { depth: *depth, max_states: 3_000_000, deadline: deadline_in((secs / n).max(2)) };
                let st = bfs(&sc, &lim, &mut viol);
                states += st.states;
                trans += st.transitions;
                outcomes += st.distinct_outcomes;
                if st.capped || st.depth_completed < st.depth_target {
                    all_complete = false;
                }
                if let Some(s) = st.samples.get(1).or(st.samples.first()) {
                    if samples.len() < 12 {
                        samples.push(format!("{}: {}", crate::hist::Scenario::name(&sc), s));
                    }
                }
                scen.push(stats_json(&crate::hist::Scenario::name(&sc), &st));
            }
        }
    }
    run.add_all(viol);
    // "leaves all other bytes equal to the source content, immediately": also for a reader or a
    // second partial writer racing the copy - every schedule of the COW scenarios, judged by the
    // linearizability oracle (reads see source or merged content, never anything else)
    let cow_scn: Vec<SchedScenario> = {
        let g = images::G10;
        let mut v = sched_scenarios(&g, &["backing", "compressed"], &["small"], true);
        v.retain(|s| s.name.starts_with("backing:") || s.name.starts_with("compressed:") || s.name.starts_with("cow-"));
        v
    };
    let (b, per, secs) = if thorough { (3, 200_000, 400) } else { (2, 4_000, 15) };
    let sched_json = match sched_explore_as(&run, &["C06", "C07"], &cow_scn, b, per, secs, Some("C10")) {
        Ok(sum) => {
            states += sum.steps;
            trans += sum.steps;
            json!({"scenarios": sum.total, "executions": sum.execs, "executor_steps": sum.steps, "scenarios_with_several_outcomes": sum.multi_outcome,
                "min_deviation_bound_completed": sum.min_bound, "deviation_bound_target": b, "scenarios_exhausted": sum.exhausted_n, "samples": sum.samples})
        }
        Err(e) => {
            eprintln!("machinery error: {}", e);
            return 2;
        }
    };
    let cov = json!({
        "states": states, "transitions": trans, "traces_validated_against_impl": trans, "samples": samples,
        "evaluations": trans, "distinct_nontrivial": outcomes, "concurrent_part": sched_json,
        "rule": "explicit-state BFS over histories of partial/straddling writes, reads, discards, flush and reopen over clusters provided by a backing chain (equal, shorter, longer, depth 2) or stored compressed (inside / ending on a host cluster boundary); oracles: reference disk sweep, reopen, strict checker (compressed run released exactly once), request log of every read-only device holds reads only",
        "exhaustive": all_complete,
        "scenarios": scen,
    });
    run.finish(cov, vec!["builder images (SpecKit) are valid qcow2 (self-test + C09)".into(), "as C01".into()])
}

pub fn debug_frag() {
    let img = crate::extra::frag_image();
    let rep = crate::spec::check_image(&img.files[0]);
    println!("frag image: {} bytes, problems {:?}", img.files[0].len(), rep.first_problem(true));
    let mut used: Vec<u64> = rep.refs.keys().copied().collect();
    used.sort();
    println!("used host clusters: {:?}", used);
}


// =====================================================================
// C08: allocator / ownership
// =====================================================================
pub fn alloc_alphabet(g: &Geo) -> Vec<Op> {
    let cs = g.cs();
    let bs = g.bs();
    let rb_slice_entries = ((8usize << g.rb_slice_bits) >> g.order) as usize;
    let rb_entries = ((8usize << g.cluster_bits) >> g.order) as usize;
    let mut v = vec![Op::Alloc(1), Op::Alloc(2), Op::Alloc(5)];
    if rb_slice_entries <= 256 {
        v.push(Op::Alloc(rb_slice_entries));
        v.push(Op::Alloc(rb_slice_entries + 1));
    }
    if rb_entries <= 512 && rb_entries != rb_slice_entries {
        v.push(Op::Alloc(rb_entries));
    }
    v.extend([
        Op::Free(0),
        Op::Free(1),
        // guest operations in fresh and in populated ranges
        Op::Write { off: 100 * cs, len: (4 * cs) as usize, tag: 1 },
        Op::Write { off: 110 * cs, len: bs as usize, tag: 2 },
        Op::Write { off: 0, len: (2 * cs) as usize, tag: 3 },
        // a multi-cluster write around the cluster the one-block write above may have mapped already
        Op::Write { off: 109 * cs, len: (3 * cs) as usize, tag: 4 },
        Op::Discard { off: 0, len: 2 * cs },
        Op::Discard { off: 100 * cs, len: 4 * cs },
        Op::Flush,
        Op::Reopen,
    ]);
    v
}

pub fn alloc_check() -> i32 {
    use crate::allocsc::AllocScenario;
    let run = Run::new("C08", "model_checking");
    let thorough = run.thorough();
    qcow2_rs::verif::set_order_salt(0);
    let gf = crate::extra::GF;
    let mut plans: Vec<(Geo, ImageSet, &str, usize, u64)> = vec![
        (gf.clone(), crate::extra::frag_image(), "small", if thorough { 5 } else { 4 }, if thorough { 400 } else { 20 }),
        (gf.clone(), images::lib_formatted(gf.cluster_bits, gf.order, gf.vsize()), "small", if thorough { 4 } else { 3 }, if thorough { 300 } else { 8 }),
        (images::G9, images::lib_formatted(9, 6, images::G9.vsize()), "small", if thorough { 4 } else { 2 }, if thorough { 200 } else { 4 }),
    ];
    if thorough {
        plans.push((gf.clone(), crate::extra::frag_image(), "ample", 4, 300));
        plans.push((images::G10, images::initial_images(&images::G10, &["data"]).remove(0), "small", 4, 200));
        plans.push((images::G12, images::lib_formatted(12, 2, images::G12.vsize()), "small", 3, 100));
    }
    let mut viol = vec![];
    let mut scen = vec![];
    let (mut states, mut trans, mut outcomes) = (0u64, 0u64, 0u64);
    let mut samples = vec![];
    let mut complete = true;
    // L1 relocation hands the old table's clusters back to the allocator while its neighbours stay in use
    let reloc: Vec<(Geo, ImageSet)> = vec![(crate::extra::g9_wide(192), crate::extra::short_l1_image()), (crate::extra::g9_wide(192), crate::extra::short_l1_two_image())];
    for (g, img) in reloc {
        let (cs, tb) = (g.cs(), g.tb());
        let w = |off: u64, len: u64, tag: u32| Op::Write { off, len: len as usize, tag };
        let alphabet = vec![w(64 * tb, cs, 1), w(130 * tb, cs, 2), w(2 * cs, cs, 3), Op::Alloc(1), Op::Alloc(3), Op::Discard { off: 0, len: cs }, Op::Flush, Op::Reopen];
        let sc = AllocScenario { img, cfg: g.cfg_small(), cfg_name: "small".into(), alphabet, prop: "C08".into() };
        let st = bfs(&sc, &BfsLimits { depth: if thorough { 4 } else { 3 }, max_states: 2_000_000, deadline: deadline_in(if thorough { 200 } else { 8 }) }, &mut viol);
        states += st.states;
        trans += st.transitions;
        outcomes += st.distinct_outcomes;
        if st.capped || st.depth_completed < st.depth_target {
            complete = false;
        }
        scen.push(stats_json(&crate::hist::Scenario::name(&sc), &st));
    }
    for (g, img, cfgn, depth, secs) in plans {
        let sc = AllocScenario { img, cfg: cfg_of(&g, cfgn), cfg_name: cfgn.into(), alphabet: alloc_alphabet(&g), prop: "C08".into() };
        let st = bfs(&sc, &BfsLimits { depth, max_states: 2_000_000, deadline: deadline_in(secs) }, &mut viol);
        states += st.states;
        trans += st.transitions;
        outcomes += st.distinct_outcomes;
        if st.capped || st.depth_completed < st.depth_target {
            complete = false;
        }
        if let Some(s) = st.samples.get(2).or(st.samples.first()) {
            samples.push(format!("{}: {}", crate::hist::Scenario::name(&sc), s));
        }
        scen.push(stats_json(&crate::hist::Scenario::name(&sc), &st));
    }
    run.add_all(viol);
    // ---- concurrent allocators / writers / discarders ----
    let mk = |name: &str, img: ImageSet, g: &Geo, setup: Vec<Op>, tasks: Vec<Vec<Op>>| SchedScenario {
        name: name.into(), img, cfg: cfg_of(g, "small"), cfg_name: "small".into(), setup, tasks, fused: true,
    };
    let cs = gf.cs();
    let w = |off: u64, len: u64, tag: u32| Op::Write { off, len: len as usize, tag };
    let libf = images::lib_formatted(gf.cluster_bits, gf.order, gf.vsize());
    let mut sscn = vec![
        mk("alloc1||alloc1", libf.clone(), &gf, vec![], vec![vec![Op::Alloc(1)], vec![Op::Alloc(1)]]),
        mk("alloc2||alloc1||alloc1", libf.clone(), &gf, vec![], vec![vec![Op::Alloc(2)], vec![Op::Alloc(1)], vec![Op::Alloc(1)]]),
        mk("alloc5-frag||alloc1", crate::extra::frag_image(), &gf, vec![], vec![vec![Op::Alloc(5)], vec![Op::Alloc(1)]]),
        mk("alloc5-frag||write", crate::extra::frag_image(), &gf, vec![], vec![vec![Op::Alloc(5)], vec![w(110 * cs, cs, 0x11)]]),
        mk("alloc1||discard", crate::extra::frag_image(), &gf, vec![], vec![vec![Op::Alloc(2)], vec![Op::Discard { off: 0, len: 2 * cs }], vec![Op::Alloc(1)]]),
        mk("write||write||discard", crate::extra::frag_image(), &gf, vec![], vec![vec![w(100 * cs, 4 * cs, 0x11)], vec![w(110 * cs, cs, 0x12)], vec![Op::Discard { off: 0, len: 2 * cs }]]),
        mk("alloc65||alloc1", libf.clone(), &gf, vec![], vec![vec![Op::Alloc(65)], vec![Op::Alloc(1)]]),
    ];
    if !thorough {
        sscn.truncate(5);
    }
    sscn.push(mk("flush||discard||discard||write", libf.clone(), &gf, vec![w(0, cs, 0x51)], vec![vec![Op::Flush], vec![Op::Discard { off: 0, len: cs }], vec![Op::Discard { off: 0, len: cs }], vec![w(4 * cs, cs, 0x12)]]));
    sscn.push(mk("discard||discard||alloc (cold cache)", libf.clone(), &gf, vec![w(0, cs, 0x51), Op::Reopen], vec![vec![Op::Discard { off: 0, len: cs }], vec![Op::Discard { off: 0, len: cs }], vec![Op::Alloc(1)]]));
    let (b, per, secs) = if thorough { (3, 300_000, 600) } else { (2, 5_000, 20) };
    let sum = match sched_explore(&run, &["C08"], &sscn, b, per, secs) {
        Ok(s) => s,
        Err(e) => {
            eprintln!("machinery error: {}", e);
            return 2;
        }
    };
    // ---- reuse: write/discard cycles over a fixed working set do not grow the host file ----
    let mut reuse = vec![];
    for (g, cfgn) in [(images::G9, "small"), (images::G10, "small"), (gf.clone(), "small"), (images::G12, "small")] {
        for (wo, wl) in [(0u64, g.cs()), (g.cs() - g.bs(), 2 * g.bs()), (0, 3 * g.cs()), (g.tb() - g.cs(), 2 * g.cs())] {
            let img = images::lib_formatted(g.cluster_bits, g.order, g.vsize());
            let mut world = World::new(img.files.clone(), img.rd.clone(), &cfg_of(&g, cfgn), &cfg_of(&g, cfgn)).unwrap();
            let mut lens = vec![];
            for cyc in 0..16u32 {
                let r1 = world.step(&Op::Write { off: wo, len: wl as usize, tag: 1 + cyc });
                let r2 = world.step(&Op::Discard { off: wo / g.cs() * g.cs(), len: (wo + wl + g.cs() - 1) / g.cs() * g.cs() - wo / g.cs() * g.cs() });
                let r3 = if cyc % 3 == 2 { world.step(&Op::Flush) } else { r2.clone() };
                if !(r1.ok && r2.ok && r3.ok) {
                    run.add(Violation { prop: "C08".into(), class: "reuse:op-failed".into(), detail: format!("cycle {} on {}: {} {} {}", cyc, img.name, r1.short(), r2.short(), r3.short()), replay: json!({"engine":"reuse","image":img.name,"write":[wo,wl]}) });
                    break;
                }
                lens.push(world.sim.borrow().files[0].len());
            }
            if lens.len() == 16 && lens[15] != lens[1] {
                run.add(Violation {
                    prop: "C08".into(),
                    class: "reuse:host-file-grows".into(),
                    detail: format!("write/discard cycles of ({:#x},{}) on {}: host file length per cycle {:?}", wo, wl, img.name, lens),
                    replay: json!({"engine":"reuse","image":img.name,"write":[wo,wl]}),
                });
            }
            reuse.push(json!({"image": img.name, "write": [wo, wl], "cycles": lens.len(), "host_len_cycle2": lens.get(1), "host_len_cycle16": lens.get(15)}));
        }
    }
    let cov = json!({
        "states": states + sum.steps, "transitions": trans + sum.steps, "traces_validated_against_impl": trans + sum.execs,
        "samples": samples, "evaluations": trans + sum.execs, "distinct_nontrivial": outcomes,
        "rule": "explicit-state BFS over histories of allocate(n)/free(run)/write/discard/flush/reopen through the allocator hook, from fragmented, empty and populated images; after every transition the state is settled (flush) and the independent checker derives owners and stored refcounts: handed-out clusters must have been free, held runs counted exactly once, nothing else leaked, nothing under-counted or doubly referenced; plus schedule exploration of concurrent allocators and write/discard reuse cycles",
        "exhaustive": complete,
        "scenarios": scen,
        "concurrent_part": {"scenarios": sum.total, "executions": sum.execs, "min_deviation_bound_completed": sum.min_bound, "deviation_bound_target": b, "scenarios_with_several_outcomes": sum.multi_outcome, "samples": sum.samples},
        "reuse_cycles": reuse,
    });
    run.finish(cov, vec!["hook H3 forwards allocate_clusters/free_clusters unchanged".into(), "ownership is derived by the SpecKit checker from the flushed file".into()])
}


// =====================================================================
// C11: discard contract
// =====================================================================
pub fn discard_check() -> i32 {
    let run = Run::new("C11", "model_checking");
    let thorough = run.thorough();
    let kinds = vec!["data", "data-last-table", "zero", "compressed", "backing", "backing-short", "libfmt"];
    // (geometry, kinds, cfg, depth, secs, punch unsupported)
    let mut plans: Vec<(Geo, Vec<&str>, &str, usize, u64, bool)> = vec![
        (images::G10, kinds.clone(), "small", 2, 20, false),
        (images::G10, vec!["data", "backing"], "small", 2, 8, true),
        (images::G9, vec!["data", "data-last-table", "backing", "backing-short"], "small", 2, 8, false),
    ];
    if thorough {
        plans = vec![
            (images::G10, kinds.clone(), "small", 3, 900, false),
            (images::G10, kinds.clone(), "ample", 2, 60, false),
            (images::G10, vec!["data", "backing", "zero"], "small", 3, 300, true),
            (images::G9, kinds.clone(), "small", 3, 600, false),
            (images::G12, vec!["data", "data-last-table", "zero", "compressed", "backing"], "small", 2, 200, false),
        ];
    }
    // slices bigger than the block size (4 KiB slices, 512-byte blocks), deeper, reduced alphabet
    plans.push((images::G12, vec!["data", "backing", "libfmt"], "alt", if thorough { 5 } else { 4 }, if thorough { 300 } else { 15 }, false));
    let oracles = Oracles { c01: true, c02: true, c03: true, ..Default::default() };
    let mut viol: Vec<Violation> = vec![];
    let mut scen = vec![];
    let (mut states, mut trans, mut outcomes) = (0u64, 0u64, 0u64);
    let mut samples: Vec<String> = vec![];
    let mut all_complete = true;
    for (g, kinds, cfgn, depth, secs, nopunch) in plans.iter() {
        let imgs = images::initial_images(g, kinds);
        let n = imgs.len() as u64;
        for img in imgs {
            qcow2_rs::verif::set_order_salt(0);
            let alpha = if *cfgn == "alt" { images::discard_alphabet_small(g) } else { images::discard_alphabet(g) };
            let mut sc = SeqScenario::new(img.clone(), cfg_of(g, cfgn), g.cfg_small(), cfgn, alpha, oracles.clone());
            sc.relabel = Some("C11".into());
            sc.punch_unsupported = *nopunch;
            let lim = BfsLimits { depth: *depth, max_states: 3_000_000, deadline: deadline_in((secs / n).max(2)) };
            let st = bfs(&sc, &lim, &mut viol);
            states += st.states;
            trans += st.transitions;
            outcomes += st.distinct_outcomes;
            if st.capped || st.depth_completed < st.depth_target {
                all_complete = false;
            }
            if let Some(s) = st.samples.get(3).or(st.samples.first()) {
                if samples.len() < 12 {
                    samples.push(format!("{}{}: {}", crate::hist::Scenario::name(&sc), if *nopunch { " (hole punch unsupported)" } else { "" }, s));
                }
            }
            scen.push(stats_json(&format!("{}{}", crate::hist::Scenario::name(&sc), if *nopunch { " nopunch" } else { "" }), &st));
        }
    }
    run.add_all(viol);
    let cov = json!({
        "states": states, "transitions": trans, "traces_validated_against_impl": trans, "samples": samples,
        "evaluations": trans, "distinct_nontrivial": outcomes,
        "rule": "explicit-state BFS over histories whose alphabet is ~95 discard(offset,len) pairs from the boundary sets {0,BS,CS-BS,CS,CS+BS,V-CS,V-BS,V,V+CS,2^64-CS} x {0,BS,CS-BS,CS,CS+BS,2CS,3CS+BS,V,2^64-1} (+ table-crossing unaligned ranges) plus writes, flush, reopen, over images whose clusters are data / zero-flagged (with and without preallocation) / compressed / backing-provided / unallocated, with hole punching supported and unsupported; oracles: every discard Ok, RefDisk discard semantics on the full sweep, reopen, strict checker (released clusters free, nothing leaked)",
        "exhaustive": all_complete,
        "scenarios": scen,
    });
    run.finish(cov, vec!["as C01".into()])
}


// =====================================================================
// C12: metadata growth
// =====================================================================
pub fn growth_check() -> i32 {
    let run = Run::new("C12", "model_checking");
    let thorough = run.thorough();
    qcow2_rs::verif::set_order_salt(0);
    let w = |off: u64, len: u64, tag: u32| Op::Write { off, len: len as usize, tag };
    let cs = 512u64;
    let tb = 64 * cs;
    // (image, alphabet, depth, seconds)
    let rb_alpha = vec![w(100 * cs, cs, 1), w(101 * cs, cs, 2), w(110 * cs, 3 * cs, 3), w(120 * cs, cs, 4), w(2 * tb, cs, 5), Op::Discard { off: 0, len: 2 * cs }, Op::Flush, Op::Sync, Op::Reopen];
    let rt_alpha = vec![w(8000 * cs, cs, 1), w(8001 * cs, cs, 2), w(8010 * cs, 3 * cs, 3), w(8100 * cs, cs, 4), w(139 * tb, cs, 5), Op::Discard { off: 0, len: 2 * cs }, Op::Flush, Op::Sync, Op::Reopen];
    let l1_alpha = vec![w(tb, cs, 1), w(64 * tb, cs, 2), w(65 * tb + cs, 2 * cs, 3), w(130 * tb, cs, 4), w(191 * tb, cs, 5), Op::Read { off: 64 * tb, len: cs as usize }, Op::Flush, Op::Sync, Op::Reopen];
    // the 70-cluster write creates refcount block 63 and, without a flush in between, runs into the end of the refcount table
    let rb63_alpha = vec![w(8000 * cs, cs, 1), w(8001 * cs, cs, 2), w(8010 * cs, 3 * cs, 3), w(8200 * cs, 70 * cs, 6), Op::Flush, Op::Sync, Op::Reopen];
    let plans: Vec<(ImageSet, Vec<Op>, usize, u64, bool)> = vec![
        (crate::extra::rb_edge_image(), rb_alpha, if thorough { 5 } else { 3 }, if thorough { 300 } else { 10 }, true),
        (crate::extra::rb63_edge_image(), rb63_alpha, if thorough { 4 } else { 3 }, if thorough { 300 } else { 10 }, false),
        (crate::extra::rt_edge_image(), rt_alpha, if thorough { 4 } else { 3 }, if thorough { 600 } else { 15 }, false),
        (crate::extra::short_l1_image(), l1_alpha.clone(), if thorough { 4 } else { 3 }, if thorough { 600 } else { 15 }, false),
        // refcount-table relocation where the virtual size equals the old table's coverage
        (crate::extra::rt_edge_tight_image(), vec![w(4060 * cs, 3 * cs, 1), w(4070 * cs, cs, 2), w(4080 * cs, 6 * cs, 3), Op::Flush, Op::Reopen], if thorough { 4 } else { 3 }, if thorough { 300 } else { 15 }, false),
        // relocation when the lowest free run is shorter than the new table
        (crate::extra::short_l1_rb_edge_image(), vec![w(64 * tb, cs, 2), w(130 * tb, cs, 4), w(57 * cs, cs, 1), Op::Discard { off: 10 * cs, len: cs }, Op::Flush, Op::Sync, Op::Reopen], 3, if thorough { 300 } else { 10 }, false),
        // relocation of a two-cluster L1 table: the released clusters are reused at once by the same write
        (crate::extra::short_l1_two_image(), vec![w(130 * tb, cs, 4), w(191 * tb, 2 * cs, 5), w(64 * tb, cs, 2), Op::Read { off: 64 * tb, len: cs as usize }, Op::Flush, Op::Sync, Op::Reopen], 3, if thorough { 600 } else { 15 }, false),
        // short L1 whose cluster has room for the missing entries: extension in place
        (
            images::initial_images(&images::G9, &["shortl1"]).remove(0),
            vec![w(tb, cs, 1), w(2 * tb + cs, cs, 2), w(tb - cs, 2 * cs, 3), w(0, cs, 4), Op::Discard { off: tb, len: cs }, Op::Flush, Op::Sync, Op::Reopen],
            if thorough { 5 } else { 4 },
            if thorough { 300 } else { 10 },
            true,
        ),
    ];
    let mut viol: Vec<Violation> = vec![];
    let mut scen = vec![];
    let (mut states, mut trans, mut outcomes, mut crash_imgs) = (0u64, 0u64, 0u64, 0u64);
    // refcount-table relocation with clusters bigger than a block (16 MiB image: content oracles, short histories)
    {
        let g = crate::extra::g10_wide(136);
        let img = crate::extra::rt_edge_1k_image();
        let k = g.cs();
        let alpha = vec![w(17_000 * k, 3 * k, 1), w(17_010 * k, k, 2), w(17_020 * k, 6 * k, 3), Op::Flush, Op::Reopen];
        let mut sc = SeqScenario::new(img.clone(), g.cfg_small(), g.cfg_alt(), "small", alpha, Oracles { c01: true, c02: true, c03: true, c16: true, ..Default::default() });
        sc.relabel = Some("C12".into());
        sc.relabel_all = true;
        sc.full_sweep = false;
        let lim = BfsLimits { depth: if thorough { 4 } else { 3 }, max_states: 100_000, deadline: deadline_in(if thorough { 300 } else { 15 }) };
        let st = bfs(&sc, &lim, &mut viol);
        states += st.states;
        trans += st.transitions;
        outcomes += st.distinct_outcomes;
        scen.push(stats_json(&format!("{} content", img.name), &st));
    }
    let mut samples = vec![];
    let mut complete = true;
    for (img, alpha, depth, secs, full) in plans {
        let g = crate::extra::g9_wide(3);
        for (oname, oracles) in [
            ("content", Oracles { c01: true, c02: true, c03: true, c16: true, ..Default::default() }),
            ("crash", Oracles { c01: true, c04: true, c05: true, ..Default::default() }),
        ] {
            // writes of 4..8 clusters make crash windows of 10^5 images of 2 MiB: content oracles only
            let alpha: Vec<Op> = alpha.iter().filter(|o| oname != "crash" || !matches!(o, Op::Write { len, .. } if *len > 3 * 512 && *len <= 8 * 512)).cloned().collect();
            let mut sc = SeqScenario::new(img.clone(), g.cfg_small(), g.cfg_alt(), "small", alpha.clone(), oracles);
            if alpha.iter().any(|o| matches!(o, Op::Write { len, .. } if *len > 8 * 512)) {
                // crash windows of a 70-cluster write hold far more than 2^14 images of 2 MiB each:
                // all-lost / all-kept and every single-block deviation from both
                sc.crash_k = 1;
                sc.crash_cap = 1 << 8;
            }
            sc.relabel = Some("C12".into());
            sc.relabel_all = true;
            sc.full_sweep = full;
            if oname == "crash" && (img.kind == "rb-edge" || img.kind == "rt-edge") {
                sc.crash_continue = 70; // more than one refcount block (64 clusters)
            }
            let lim = BfsLimits { depth: if oname == "crash" { depth.min(3) } else { depth }, max_states: 2_000_000, deadline: deadline_in(secs) };
            let st = bfs(&sc, &lim, &mut viol);
            states += st.states;
            trans += st.transitions;
            outcomes += st.distinct_outcomes;
            crash_imgs += st.counters[3];
            if st.capped || st.depth_completed < st.depth_target {
                complete = false;
            }
            if let Some(s) = st.samples.get(2).or(st.samples.first()) {
                samples.push(format!("{} [{}]: {}", img.name, oname, s));
            }
            let mut j = stats_json(&format!("{} {}", img.name, oname), &st);
            j["distinct_crash_images_checked"] = json!(st.counters[3]);
            scen.push(j);
        }
    }
    run.add_all(viol);
    let cov = json!({
        "states": states, "transitions": trans, "traces_validated_against_impl": trans, "samples": samples,
        "evaluations": trans, "distinct_nontrivial": outcomes, "distinct_crash_images_checked": crash_imgs,
        "rule": "explicit-state BFS over write/discard/flush/sync/reopen histories from three images built one allocation short of (i) a new refcount block, (ii) the end of the one-cluster refcount table (relocation + header switch), (iii) the header's l1_size (L1 extension); oracles of C01 C02 C03 C16 on every transition and the crash-image oracles of C04 C05 on every fsync window of the growth sequences",
        "exhaustive": complete,
        "scenarios": scen,
    });
    run.finish(cov, vec!["the 8 MiB refcount-table and 32 MiB L1 format limits themselves are outside the bound (terabyte host files)".into(), "as C01 / C04".into()])
}
