//! Per-property checks: scenario selection, bounds per tier, evidence.
use crate::hist::{bfs, deadline_in, BfsLimits, BfsStats};
use crate::images::{self, Geo, ImageSet};
use crate::report::{Run, Violation};
use crate::seq::{Oracles, SeqScenario};
use crate::world::*;
use serde_json::{json, Value};

pub fn run_check(prop: &str, _args: &[String]) -> i32 {
    match prop {
        "C01" | "C02" | "C03" | "C16" | "C18" => seq_family(prop),
        _ => {
            eprintln!("unknown property {}", prop);
            2
        }
    }
}

pub fn replay(_path: &str) -> i32 {
    2
}
pub fn selftest() -> i32 {
    0
}

struct SeqPlan {
    geo: Geo,
    images: Vec<&'static str>,
    cfgs: Vec<&'static str>,
    depth: usize,
    secs: u64,
}

fn cfg_of(g: &Geo, name: &str) -> DevCfg {
    match name {
        "small" => g.cfg_small(),
        "ample" => g.cfg_ample(),
        "default" => g.cfg_default(),
        "alt" => g.cfg_alt(),
        _ => panic!(),
    }
}

pub fn stats_json(name: &str, st: &BfsStats) -> Value {
    json!({
        "scenario": name,
        "states": st.states,
        "transitions": st.transitions,
        "depth_completed": st.depth_completed,
        "depth_target": st.depth_target,
        "capped": st.capped,
        "pruned_states": st.pruned,
        "per_level": st.per_level.iter().map(|(d,t,n)| json!({"depth":d,"transitions":t,"new_states":n})).collect::<Vec<_>>(),
        "distinct_outcomes": st.distinct_outcomes,
    })
}

fn seq_family(prop: &str) -> i32 {
    let run = Run::new(prop, "model_checking");
    let thorough = run.thorough();
    let plans: Vec<SeqPlan> = if !thorough {
        vec![
            SeqPlan { geo: images::G9, images: vec!["libfmt", "data"], cfgs: vec!["small"], depth: 3, secs: 10 },
            SeqPlan { geo: images::G10, images: vec!["libfmt", "data"], cfgs: vec!["small", "ample"], depth: 3, secs: 14 },
            SeqPlan { geo: images::G12, images: vec!["libfmt"], cfgs: vec!["small"], depth: 2, secs: 5 },
        ]
    } else {
        vec![
            SeqPlan { geo: images::G9, images: vec!["libfmt", "data", "empty"], cfgs: vec!["small", "ample"], depth: 6, secs: 240 },
            SeqPlan { geo: images::G10, images: vec!["libfmt", "data", "empty"], cfgs: vec!["small", "ample"], depth: 6, secs: 300 },
            SeqPlan { geo: images::G12, images: vec!["libfmt", "data"], cfgs: vec!["small", "default"], depth: 4, secs: 120 },
            SeqPlan { geo: images::G12B, images: vec!["libfmt"], cfgs: vec!["small"], depth: 3, secs: 60 },
            SeqPlan { geo: images::G16, images: vec!["libfmt"], cfgs: vec!["default"], depth: 3, secs: 60 },
        ]
    };
    let oracles = Oracles { c01: true, c02: true, c03: true, c16: true, c18: true, ..Default::default() };
    let mut viol: Vec<Violation> = vec![];
    let mut scen = vec![];
    let (mut states, mut trans) = (0u64, 0u64);
    let mut outcomes = 0u64;
    let mut samples: Vec<String> = vec![];
    let mut all_complete = true;
    let salts: &[usize] = if thorough { &[0, 1] } else { &[0] };
    for plan in plans.iter() {
        let imgs: Vec<ImageSet> = images::initial_images(&plan.geo, &plan.images);
        let n = imgs.len() * plan.cfgs.len() * salts.len();
        for img in imgs {
            for cfgn in plan.cfgs.iter() {
                for &salt in salts {
                    qcow2_rs::verif::set_order_salt(salt);
                    let cfg = cfg_of(&plan.geo, cfgn);
                    let alt = plan.geo.cfg_alt();
                    let sc = SeqScenario::new(img.clone(), cfg, alt, cfgn, images::alphabet(&plan.geo, true), oracles.clone());
                    let lim = BfsLimits { depth: plan.depth, max_states: 3_000_000, deadline: deadline_in((plan.secs / n as u64).max(2)) };
                    let st = bfs(&sc, &lim, &mut viol);
                    states += st.states;
                    trans += st.transitions;
                    outcomes += st.distinct_outcomes;
                    if st.capped || st.depth_completed < st.depth_target {
                        all_complete = false;
                    }
                    for s in st.samples.iter().take(2) {
                        if samples.len() < 12 {
                            samples.push(format!("{} salt{}: {}", crate::hist::Scenario::name(&sc), salt, s));
                        }
                    }
                    let mut j = stats_json(&format!("{} salt{}", crate::hist::Scenario::name(&sc), salt), &st);
                    j["requests_seen"] = json!(st.counters[0]);
                    scen.push(j);
                }
            }
        }
    }
    run.add_all(viol);
    let cov = json!({
        "states": states,
        "transitions": trans,
        "traces_validated_against_impl": trans,
        "samples": samples,
        "evaluations": trans,
        "distinct_nontrivial": outcomes,
        "rule": "explicit-state BFS over operation histories on the real code (every transition = one replay of the history on a fresh simulated host); states merged by digest of files + in-RAM metadata + reference disk; distinct_nontrivial = number of distinct (operation kind, result, data returned) outcomes observed",
        "exhaustive": all_complete,
        "scenarios": scen,
    });
    run.finish(cov, vec![
        "SimIo host-file model (tied to the real backends by C19)".into(),
        "deterministic cache iteration order (verif-hooks H1) is one admissible order; thorough tier runs ascending and descending".into(),
        "block-granular data values: every 512-byte block holds a uniform tag word".into(),
    ])
}
