#![allow(dead_code)]
mod allocsc;
mod c09;
mod c14;
mod c19;
mod c20;
mod crash;
mod enumchk;
mod extra;
mod fault;
mod hist;
mod images;
mod lin;
mod props;
mod report;
mod sched;
mod seq;
mod simio;
mod watchdog;
mod spec;
mod world;

#[global_allocator]
static GLOBAL: c14::CountingAlloc = c14::CountingAlloc;

fn main() {
    let args: Vec<String> = std::env::args().collect();
    if args.len() < 2 {
        eprintln!("usage: qmc <C01..C20|selftest|replay> [args]");
        std::process::exit(2);
    }
    // panics inside explored executions are observations; keep the output quiet
    if args[1] != "replay" && std::env::var("QMC_LOUD").is_err() {
        std::panic::set_hook(Box::new(|_| {}));
    }
    let code = match args[1].as_str() {
        "replay" if args.len() < 3 => {
            eprintln!("usage: qmc replay <replay file>");
            2
        }
        "replay" => props::replay(&args[2]),
        "selftest" => props::selftest(),
        "c14-worker" => c14::worker(&args[2..]),
        "debug-frag" => {
            props::debug_frag();
            0
        }
        p => props::run_check(p, &args[2..]),
    };
    std::process::exit(code);
}
